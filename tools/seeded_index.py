#!/usr/bin/env python3
"""Regenerate seeded/INDEX.md from seeded/*/meta.json."""
import glob, json, os, re
HERE = os.path.dirname(os.path.dirname(os.path.abspath(__file__)))
rows = []
for m in sorted(glob.glob(os.path.join(HERE, "seeded", "*", "meta.json"))):
    d = os.path.dirname(m)
    meta = json.load(open(m))
    diff = open(os.path.join(d, "patch.diff")).read()
    files = sorted(set(l[6:].replace("Geometry3D/", "") for l in diff.splitlines() if l.startswith("+++ b/")))
    note = open(os.path.join(d, "note.md")).read() if os.path.exists(os.path.join(d, "note.md")) else ""
    first = ""
    for line in note.splitlines():
        line = line.strip().lstrip("#").strip()
        if len(line) > 25 and not line.lower().startswith(("mutant", "c0", "c1", "c2", "m1", "m2", "m3")):
            first = line
            break
    first = re.sub(r"\s+", " ", first)[:180].replace("|", "/")
    caught = [k for k in meta.get("caught_by_quick_checks", {}) if "harness" not in k]
    rows.append((meta["id"], meta["breaks_property"], ", ".join(files), first, ", ".join(caught) or "**none**"))
with open(os.path.join(HERE, "seeded", "INDEX.md"), "w") as f:
    f.write("# Seeded changes\n\nEach directory holds `patch.diff` (against /repo HEAD at the time recorded in meta.json), `demo.py` (passes on HEAD, fails with the patch; run with `G3D_PATH=<tree>`), `note.md` (the author's description) and `meta.json` (what was confirmed here and which quick checks report a violation with the patch applied). Ids `Cxx-mK` are round 1, `Cxx-r2mK` round 2 (authors were asked for changes a strong randomized tester could still miss).\n\n")
    f.write("| id | written against | files | what (first line of the author's note) | caught by (quick tier) |\n|---|---|---|---|---|\n")
    for r in rows:
        f.write("| %s | %s | %s | %s | %s |\n" % r)
    f.write("\n%d changes, %d caught by at least one quick check.\n" % (len(rows), sum(1 for r in rows if r[4] != "**none**")))
print(len(rows), sum(1 for r in rows if r[4] != "**none**"))
