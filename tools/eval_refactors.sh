#!/bin/bash
cd "$(dirname "$(readlink -f "$0")")/.."
for d in /tmp/refactors/C*/r*; do
  [ -f $d/patch.diff ] && [ -f $d/note.md ] || continue
  p=$(basename $(dirname $d)); k=$(basename $d); id="$p-$k"
  [ -d refactors/$id ] && continue
  python3 tools/refactor_eval.py $d $id
done
