#!/usr/bin/env python3
"""development aid: re-run quick checks against every stored behaviour-preserving refactor (refactors/<id>/patch.diff).
usage: tools/refactor_regress.py [--checks C03,C07,...] [--only prefix]   exit 1 if any check reports anything.
Own scratch worktree /root/scratch/mut3 (removed at the end). Updates refactors/<id>/meta.json['regression']."""
import glob, json, os, subprocess, sys
V = os.path.dirname(os.path.dirname(os.path.abspath(__file__)))
W = "/root/scratch/mut3"
def sh(cmd, **kw):
    return subprocess.run(cmd, shell=True, capture_output=True, text=True, **kw)
a = sys.argv[1:]
checks = a[a.index("--checks") + 1].split(",") if "--checks" in a else ["C%02d" % i for i in range(1, 21)]
only = a[a.index("--only") + 1] if "--only" in a else None
head = sh("git -C /repo rev-parse HEAD").stdout.strip()
if os.path.exists(W):
    sh("git -C /repo worktree remove --force %s" % W)
sh("git -C /repo worktree add --detach %s %s" % (W, head))
bad = 0
for m in sorted(glob.glob(os.path.join(V, "refactors", "*", "meta.json"))):
    d = os.path.dirname(m)
    rid = os.path.basename(d)
    if only and not rid.startswith(only):
        continue
    if sh("git -C %s apply %s/patch.diff" % (W, d)).returncode:
        print(rid, "PATCH-NO-LONGER-APPLIES", flush=True)
        continue
    env = dict(os.environ, PYTHONPATH=W, PYTHONDONTWRITEBYTECODE="1")
    tests = sh("cd %s && /venv/bin/python -m pytest -q -p no:cacheprovider 2>&1 | tail -1" % W, env=env).stdout.strip()
    alarms = {}
    for cid in checks:
        rr = sh("G3DVERIF_REPO=%s /venv/bin/python -m g3dverif.run %s --tier quick --no-evidence" % (W, cid), cwd=V)
        if rr.returncode != 0:
            alarms[cid] = [l.strip() for l in (rr.stdout + rr.stderr).splitlines() if "sig=" in l or "HARNESS" in l][:4]
    sh("git -C %s checkout -- .; git -C %s clean -fdq" % (W, W))
    meta = json.load(open(m))
    meta["regression"] = {"repo_head": head, "tests": tests, "checks": checks, "reporting": alarms}
    json.dump(meta, open(m, "w"), indent=1)
    print(rid, tests.split(" in ")[0], "| alarms:", alarms or "none", flush=True)
    bad += bool(alarms)
sh("git -C /repo worktree remove --force %s" % W)
sys.exit(1 if bad else 0)
