#!/usr/bin/env python3
"""Regenerate refactors/INDEX.md from refactors/*/meta.json."""
import glob, json, os, re
HERE = os.path.dirname(os.path.dirname(os.path.abspath(__file__)))
rows = []
for m in sorted(glob.glob(os.path.join(HERE, "refactors", "*", "meta.json"))):
    d = os.path.dirname(m)
    meta = json.load(open(m))
    diff = open(os.path.join(d, "patch.diff")).read()
    files = sorted(set(l[6:].replace("Geometry3D/", "") for l in diff.splitlines() if l.startswith("+++ b/")))
    note = open(os.path.join(d, "note.md")).read() if os.path.exists(os.path.join(d, "note.md")) else ""
    first = ""
    for line in note.splitlines():
        line = line.strip().lstrip("#").strip()
        if len(line) > 25:
            first = line
            break
    first = re.sub(r"\s+", " ", first)[:200].replace("|", "/")
    rows.append((meta["id"], ", ".join(files), first, meta["tests_with_patch"].split(" in ")[0], "silent" if meta["all_20_quick_checks_silent"] else "**ALARM** " + ", ".join(meta["quick_checks_reporting"])))
with open(os.path.join(HERE, "refactors", "INDEX.md"), "w") as f:
    f.write("# Behaviour-preserving refactors (false-alarm test)\n\nEach directory holds a refactor written by an independent sub-agent that was given the 20 property statements and asked to change observable-but-unspecified details (result end point order, stored support points, hash functions, exception types, algorithms, aliasing, last-bit rounding) while keeping every property true; `meta.json` records the 87-test result and the outcome of ALL 20 quick checks with the patch applied.\n\n| id | files | what (first line of the author's note) | tests | 20 quick checks |\n|---|---|---|---|---|\n")
    for r in rows:
        f.write("| %s | %s | %s | %s | %s |\n" % r)
    f.write("\n%d refactors, %d with all 20 quick checks silent.\n" % (len(rows), sum(1 for r in rows if r[4] == "silent")))
print(len(rows))
