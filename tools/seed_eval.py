#!/usr/bin/env python3
"""Evaluate a candidate seeded change: tools/seed_eval.py <src_dir> <seed_id> <property> [check ids to try first...]
src_dir holds patch.diff, demo.py, note.md (from an independent sub-agent). Confirms: patch applies to /repo HEAD,
the 87 tests pass with it, demo fails with it and passes without; runs checks against it; writes /verif/seeded/<seed_id>/."""
import json, os, shutil, subprocess, sys
W = os.environ.get("W", "/root/scratch/mut")
V = "/verif"
ALL = ["C%02d" % i for i in range(1, 21)]

def sh(cmd, **kw):
    return subprocess.run(cmd, shell=True, capture_output=True, text=True, **kw)

def main():
    src, sid, prop = sys.argv[1], sys.argv[2], sys.argv[3]
    first = sys.argv[4:] or [prop]
    head = sh("git -C /repo rev-parse HEAD").stdout.strip()
    sh("git -C %s checkout -q --detach %s; git -C %s checkout -- .; git -C %s clean -fdq" % (W, head, W, W))
    env = dict(os.environ, G3D_PATH=W, PYTHONPATH=W, PYTHONDONTWRITEBYTECODE="1")
    clean = sh("/venv/bin/python %s/demo.py" % src, env=env, cwd=W)
    r = sh("git -C %s apply %s/patch.diff" % (W, src))
    if r.returncode:
        print(sid, "PATCH DOES NOT APPLY", r.stderr[:200]); return 1
    tests = sh("cd %s && /venv/bin/python -m pytest -q -p no:cacheprovider 2>&1 | tail -1" % W, env=env).stdout.strip()
    patched = sh("/venv/bin/python %s/demo.py" % src, env=env, cwd=W)
    ok = ("87 passed" in tests) and clean.returncode == 0 and patched.returncode != 0
    caught = {}
    order = first + [c for c in ALL if c not in first]
    for cid in order:
        if caught and cid not in first:
            break
        rr = sh("G3DVERIF_REPO=%s /venv/bin/python -m g3dverif.run %s --tier quick --no-evidence" % (W, cid), cwd=V)
        sigs = [l.strip() for l in rr.stdout.splitlines() if l.strip().startswith("stratum=")]
        if rr.returncode == 1:
            caught[cid] = sigs[:2]
        elif rr.returncode != 0:
            caught[cid + "(harness-error)"] = [rr.stderr[-300:]]
    sh("git -C %s checkout -- .; git -C %s clean -fdq" % (W, W))
    meta = {
        "id": sid, "breaks_property": prop, "source": "independent sub-agent given only the property text and a scratch worktree",
        "repo_head_when_confirmed": head,
        "confirmed": {"patch_applies": True, "tests_with_patch": tests, "demo_on_clean_head": "exit %d" % clean.returncode,
                      "demo_with_patch": "exit %d" % patched.returncode, "all_confirmed": ok},
        "commands": ["git -C <scratch worktree of /repo HEAD> apply patch.diff", "PYTHONPATH=<wt> /venv/bin/python -m pytest -q -p no:cacheprovider",
                     "G3D_PATH=<wt> /venv/bin/python demo.py", "G3DVERIF_REPO=<wt> /venv/bin/python -m g3dverif.run <ID> --tier quick"],
        "caught_by_quick_checks": caught,
    }
    note = open(os.path.join(src, "note.md")).read() if os.path.exists(os.path.join(src, "note.md")) else ""
    meta["needs_to_manifest"] = note[:1500]
    if ok:
        d = os.path.join(V, "seeded", sid)
        os.makedirs(d, exist_ok=True)
        for f in ("patch.diff", "demo.py", "note.md"):
            if os.path.exists(os.path.join(src, f)):
                shutil.copy(os.path.join(src, f), d)
        json.dump(meta, open(os.path.join(d, "meta.json"), "w"), indent=1)
    print(sid, "confirmed" if ok else "NOT CONFIRMED (%s | clean %d | patched %d)" % (tests, clean.returncode, patched.returncode), "caught by:", list(caught) or "NONE")
    return 0

sys.exit(main())
