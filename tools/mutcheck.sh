#!/bin/bash
# usage: tools/mutcheck.sh <patch.diff> <ID> [<ID>...]   (development tooling; not a registered check)
# applies the patch to the scratch worktree /root/scratch/mut (at /repo's HEAD), runs the 87 tests there,
# then runs the quick tier of each listed check against it.
set -u
P=$(readlink -f "$1"); shift
W=${W:-/root/scratch/mut}
git -C $W checkout -q --detach $(git -C /repo rev-parse HEAD) 2>/dev/null
git -C $W checkout -- . && git -C $W clean -fdq
if ! git -C $W apply "$P"; then echo "PATCH-DOES-NOT-APPLY"; exit 3; fi
T=$(cd $W && PYTHONPATH=$W /venv/bin/python -m pytest -q -p no:cacheprovider 2>&1 | tail -1)
echo "tests: $T"
cd /verif
for id in "$@"; do
  G3DVERIF_REPO=$W /venv/bin/python -m g3dverif.run $id --tier ${TIER:-quick} --no-evidence 2>&1 | grep -E "VIOLATION|sig=|KNOWN|HARNESS|evaluations" | head -8
done
git -C $W checkout -- .
