#!/venv/bin/python
"""development aid (not a registered check): systematic single-edit mutants of Geometry3D.

  tools/mutsweep.py gen  <outdir>                     enumerate mutants -> <outdir>/mutants.json
  tools/mutsweep.py tests <outdir> [-j N]            run the 87 tests on every mutant (N scratch copies in parallel)
  tools/mutsweep.py checks <outdir> [--limit K] [--cov <covdir>/by_check.json] [--seed S]
                                                     run quick checks on test-passing mutants (random order), stop at first VIOLATION
  tools/mutsweep.py report <outdir>

Scratch copies live under <outdir>/wt* (outside /repo and /verif) and are removed at the end of each stage.
A mutant is one textual edit at an AST-located position: comparison / arithmetic / boolean operator swap, constant
change, sign flip on get_eps(), dropped `not`, `return x` -> `return None`, deleted raise-guard, deleted
expression statement (e.g. set.add), index change, swapped call arguments.
"""
import ast, json, os, random, shutil, subprocess, sys, time, hashlib
from concurrent.futures import ThreadPoolExecutor

REPO = os.environ.get("MUTSWEEP_REPO", "/repo")
PKG = "Geometry3D"
SKIP_DIRS = ("visualization",)
SKIP_FILES = ("logger.py", "__init__.py")
V = os.path.dirname(os.path.dirname(os.path.abspath(__file__)))
ALL = ["C%02d" % i for i in range(1, 21)]

CMP = {ast.Lt: ["<=", ">"], ast.LtE: ["<", ">="], ast.Gt: [">=", "<"], ast.GtE: [">", "<="], ast.Eq: ["!="], ast.NotEq: ["=="],
       ast.Is: ["is not"], ast.IsNot: ["is"], ast.In: ["not in"], ast.NotIn: ["in"]}
CMPTXT = {ast.Lt: "<", ast.LtE: "<=", ast.Gt: ">", ast.GtE: ">=", ast.Eq: "==", ast.NotEq: "!=", ast.Is: "is", ast.IsNot: "is not",
          ast.In: "in", ast.NotIn: "not in"}
BIN = {ast.Add: ["-"], ast.Sub: ["+"], ast.Mult: ["/"], ast.Div: ["*"], ast.Mod: ["+"], ast.Pow: ["*"]}
BINTXT = {ast.Add: "+", ast.Sub: "-", ast.Mult: "*", ast.Div: "/", ast.Mod: "%", ast.Pow: "**"}


class Src:
    def __init__(self, text):
        self.text = text
        self.lines = text.splitlines(keepends=True)
        self.off = [0]
        for l in self.lines:
            self.off.append(self.off[-1] + len(l.encode()))
        self.b = text.encode()

    def pos(self, line, col):
        return self.off[line - 1] + col

    def span(self, node):
        return self.pos(node.lineno, node.col_offset), self.pos(node.end_lineno, node.end_col_offset)

    def seg(self, a, b):
        return self.b[a:b].decode()


def find_op(src, a, b, optxt):
    """position of operator text between byte offsets a..b (skipping parentheses/space/comments crudely)"""
    s = src.seg(a, b)
    i = s.find(optxt)
    # make sure we do not match '<' inside '<=' etc.
    while i >= 0:
        nxt = s[i + len(optxt): i + len(optxt) + 1]
        prv = s[i - 1: i] if i > 0 else ""
        if optxt in ("<", ">") and nxt == "=":
            i = s.find(optxt, i + 1); continue
        if optxt in ("*",) and (nxt == "*" or prv == "*"):
            i = s.find(optxt, i + 1); continue
        if optxt in ("=",):
            i = s.find(optxt, i + 1); continue
        return a + len(s[:i].encode()), a + len(s[:i].encode()) + len(optxt.encode())
    return None


def gen_file(rel, text):
    src = Src(text)
    tree = ast.parse(text)
    muts = []

    def add(a, b, new, kind, line):
        old = src.seg(a, b)
        if old == new:
            return
        muts.append({"file": rel, "a": a, "b": b, "old": old, "new": new, "kind": kind, "line": line})

    # docstring positions to skip
    doc = set()
    for n in ast.walk(tree):
        if isinstance(n, (ast.FunctionDef, ast.ClassDef, ast.Module)) and n.body and isinstance(n.body[0], ast.Expr) and isinstance(getattr(n.body[0], "value", None), ast.Constant) and isinstance(n.body[0].value.value, str):
            doc.add(id(n.body[0]))
    parents = {}
    for n in ast.walk(tree):
        for c in ast.iter_child_nodes(n):
            parents[id(c)] = n

    def in_raise_or_log(n):
        p = parents.get(id(n))
        while p is not None:
            if isinstance(p, ast.Raise):
                return True
            if isinstance(p, ast.Call) and isinstance(p.func, ast.Attribute) and p.func.attr in ("format", "warning", "error", "critical", "info", "debug"):
                return True
            if isinstance(p, ast.FunctionDef) and p.name in ("__repr__", "__str__"):
                return True
            p = parents.get(id(p))
        return False

    for n in ast.walk(tree):
        if in_raise_or_log(n):
            continue
        if isinstance(n, ast.Compare):
            left = n.left
            for op, comp in zip(n.ops, n.comparators):
                a = src.pos(left.end_lineno, left.end_col_offset)
                b = src.pos(comp.lineno, comp.col_offset)
                t = CMPTXT.get(type(op))
                if t:
                    p = find_op(src, a, b, t)
                    if p:
                        for new in CMP[type(op)]:
                            add(p[0], p[1], new, "cmp", n.lineno)
                left = comp
        elif isinstance(n, ast.BinOp) and type(n.op) in BIN:
            if isinstance(n.left, ast.Constant) and isinstance(n.left.value, str):
                continue
            a = src.pos(n.left.end_lineno, n.left.end_col_offset)
            b = src.pos(n.right.lineno, n.right.col_offset)
            p = find_op(src, a, b, BINTXT[type(n.op)])
            if p:
                for new in BIN[type(n.op)]:
                    add(p[0], p[1], new, "arith", n.lineno)
        elif isinstance(n, ast.BoolOp):
            t = "and" if isinstance(n.op, ast.And) else "or"
            new = "or" if t == "and" else "and"
            for x, y in zip(n.values, n.values[1:]):
                a = src.pos(x.end_lineno, x.end_col_offset)
                b = src.pos(y.lineno, y.col_offset)
                s = src.seg(a, b)
                i = s.find(t)
                if i >= 0:
                    add(a + i, a + i + len(t), new, "bool", n.lineno)
        elif isinstance(n, ast.UnaryOp) and isinstance(n.op, ast.Not):
            a, b = src.span(n)
            oa, ob = src.span(n.operand)
            add(a, b, "(" + src.seg(oa, ob) + ")", "dropnot", n.lineno)
        elif isinstance(n, ast.UnaryOp) and isinstance(n.op, ast.USub):
            a, b = src.span(n)
            oa, ob = src.span(n.operand)
            add(a, b, "(" + src.seg(oa, ob) + ")", "dropneg", n.lineno)
        elif isinstance(n, ast.Constant) and not isinstance(n.value, (str, bytes)) and n.value is not None and n.value is not Ellipsis:
            a, b = src.span(n)
            v = n.value
            if v is True:
                add(a, b, "False", "const", n.lineno)
            elif v is False:
                add(a, b, "True", "const", n.lineno)
            elif isinstance(v, int):
                for new in ({0: [1], 1: [0, 2]}.get(v, [v + 1, v - 1])):
                    add(a, b, str(new), "const", n.lineno)
            elif isinstance(v, float):
                add(a, b, repr(v * 2), "const", n.lineno)
                add(a, b, repr(v / 2) if v else "1.0", "const", n.lineno)
        elif isinstance(n, ast.Return) and n.value is not None and not (isinstance(n.value, ast.Constant) and n.value.value is None):
            a, b = src.span(n.value)
            add(a, b, "None", "retnone", n.lineno)
            if isinstance(n.value, ast.Constant) and n.value.value in (True, False):
                pass
        elif isinstance(n, ast.If):
            # delete a guard whose body is a single raise
            if len(n.body) == 1 and isinstance(n.body[0], ast.Raise) and not n.orelse:
                a, b = src.span(n.test)
                add(a, b, "False", "dropguard", n.lineno)
            else:
                a, b = src.span(n.test)
                add(a, b, "(not (" + src.seg(a, b) + "))" if False else "True", "iftrue", n.lineno)
                add(a, b, "False", "iffalse", n.lineno)
        elif isinstance(n, ast.Expr) and id(n) not in doc and isinstance(n.value, ast.Call):
            a, b = src.span(n)
            add(a, b, "pass", "dropstmt", n.lineno)
        elif isinstance(n, ast.Call) and len(n.args) == 2 and not n.keywords:
            a0, b0 = src.span(n.args[0])
            a1, b1 = src.span(n.args[1])
            s0, s1 = src.seg(a0, b0), src.seg(a1, b1)
            if s0 != s1:
                add(a0, b1, s1 + src.seg(b0, a1) + s0, "swapargs", n.lineno)
        elif isinstance(n, ast.AugAssign):
            a = src.pos(n.target.end_lineno, n.target.end_col_offset)
            b = src.pos(n.value.lineno, n.value.col_offset)
            s = src.seg(a, b)
            for t, new in (("+=", "-="), ("-=", "+="), ("*=", "/="), ("/=", "*=")):
                i = s.find(t)
                if i >= 0:
                    add(a + i, a + i + 2, new, "aug", n.lineno)
                    break
        elif isinstance(n, ast.Attribute) and n.attr in ("start_point", "end_point") and isinstance(n.ctx, ast.Load):
            a, b = src.span(n)
            va, vb = src.span(n.value)
            other = "end_point" if n.attr == "start_point" else "start_point"
            add(a, b, src.seg(va, vb) + "." + other, "attrswap", n.lineno)
    # dedupe
    seen = set()
    out = []
    for m in muts:
        k = (m["a"], m["b"], m["new"])
        if k in seen:
            continue
        seen.add(k)
        out.append(m)
    return out


def gen(outdir):
    os.makedirs(outdir, exist_ok=True)
    muts = []
    root = os.path.join(REPO, PKG)
    for dp, dn, fns in os.walk(root):
        if any(s in dp for s in SKIP_DIRS):
            continue
        for fn in sorted(fns):
            if not fn.endswith(".py") or fn in SKIP_FILES:
                continue
            path = os.path.join(dp, fn)
            rel = os.path.relpath(path, REPO)
            text = open(path).read()
            for m in gen_file(rel, text):
                # must still compile
                b = text.encode()
                new = (b[: m["a"]] + m["new"].encode() + b[m["b"]:]).decode()
                try:
                    compile(new, rel, "exec")
                except SyntaxError:
                    continue
                muts.append(m)
    for i, m in enumerate(muts):
        m["id"] = "M%04d" % i
    json.dump({"head": subprocess.run(["git", "-C", REPO, "rev-parse", "HEAD"], capture_output=True, text=True).stdout.strip(), "mutants": muts},
              open(os.path.join(outdir, "mutants.json"), "w"), indent=0)
    import collections
    print(len(muts), "mutants", dict(collections.Counter(m["kind"] for m in muts)))


def make_wt(path):
    if os.path.exists(path):
        shutil.rmtree(path)
    os.makedirs(path)
    shutil.copytree(os.path.join(REPO, PKG), os.path.join(path, PKG), ignore=shutil.ignore_patterns("__pycache__"))
    shutil.copytree(os.path.join(REPO, "unit_tests"), os.path.join(path, "unit_tests"), ignore=shutil.ignore_patterns("__pycache__"))
    for f in ("setup.py", "setup.cfg", "pytest.ini", "tox.ini", "conftest.py"):
        if os.path.exists(os.path.join(REPO, f)):
            shutil.copy(os.path.join(REPO, f), path)


def apply(wt, m):
    p = os.path.join(wt, m["file"])
    b = open(os.path.join(REPO, m["file"]), "rb").read()
    assert b[m["a"]:m["b"]].decode() == m["old"], (m, b[m["a"]:m["b"]])
    open(p, "wb").write(b[: m["a"]] + m["new"].encode() + b[m["b"]:])


def restore(wt, m):
    shutil.copy(os.path.join(REPO, m["file"]), os.path.join(wt, m["file"]))


def load(outdir):
    d = json.load(open(os.path.join(outdir, "mutants.json")))
    res_p = os.path.join(outdir, "results.json")
    res = json.load(open(res_p)) if os.path.exists(res_p) else {}
    return d["mutants"], res


def save(outdir, res):
    tmp = os.path.join(outdir, "results.json.tmp")
    json.dump(res, open(tmp, "w"), indent=0)
    os.replace(tmp, os.path.join(outdir, "results.json"))


def stage_tests(outdir, jobs):
    muts, res = load(outdir)
    todo = [m for m in muts if "tests" not in res.get(m["id"], {})]
    wts = [os.path.join(outdir, "wt%d" % i) for i in range(jobs)]
    for w in wts:
        make_wt(w)
    import queue, threading
    q = queue.Queue()
    for m in todo:
        q.put(m)
    lock = threading.Lock()
    done = [0]

    def work(w):
        while True:
            try:
                m = q.get_nowait()
            except queue.Empty:
                return
            apply(w, m)
            env = dict(os.environ, PYTHONPATH=w, PYTHONDONTWRITEBYTECODE="1")
            try:
                r = subprocess.run(["/venv/bin/python", "-m", "pytest", "-q", "-x", "-p", "no:cacheprovider", "--timeout=120"], cwd=w, env=env,
                                   capture_output=True, text=True, timeout=300)
                tail = (r.stdout.strip().splitlines() or [""])[-1]
                ok = r.returncode == 0 and "87 passed" in tail
            except subprocess.TimeoutExpired:
                ok, tail = False, "timeout"
            restore(w, m)
            with lock:
                res.setdefault(m["id"], {})["tests"] = "pass" if ok else "fail"
                done[0] += 1
                if done[0] % 50 == 0:
                    save(outdir, res)
                    print(done[0], "/", len(todo), flush=True)

    ts = [threading.Thread(target=work, args=(w,)) for w in wts]
    [t.start() for t in ts]
    [t.join() for t in ts]
    save(outdir, res)
    for w in wts:
        shutil.rmtree(w, ignore_errors=True)
    n = sum(1 for m in muts if res.get(m["id"], {}).get("tests") == "pass")
    print("tests stage done:", n, "of", len(muts), "mutants pass the 87 tests")


def check_order(m, bycheck):
    """checks whose quick tier executes the mutated line, cheapest first; then the rest"""
    rel = os.path.relpath(m["file"], PKG)
    cov = []
    if bycheck:
        for ln, cs in bycheck.get(rel, []):
            if ln == m["line"]:
                cov = cs
    cost = {"C11": 1, "C17": 2, "C14": 3, "C18": 3, "C20": 3, "C15": 4, "C10": 4, "C06": 5, "C08": 5, "C09": 6, "C13": 7, "C07": 8, "C19": 8, "C05": 9, "C01": 10,
            "C12": 12, "C02": 13, "C04": 13, "C16": 14, "C03": 16}
    first = sorted(cov, key=lambda c: cost.get(c, 10))
    rest = sorted([c for c in ALL if c not in cov], key=lambda c: cost.get(c, 10))
    return first, rest


def stage_checks(outdir, limit, covfile, seed, only_cov=True, kinds=None, maxchecks=0):
    muts, res = load(outdir)
    bycheck = json.load(open(covfile)) if covfile else None
    todo = [m for m in muts if res.get(m["id"], {}).get("tests") == "pass" and "checks" not in res[m["id"]] and (not kinds or m["kind"] in kinds)]
    random.Random(seed).shuffle(todo)
    if limit:
        todo = todo[:limit]
    wt = os.path.join(outdir, "wtc")
    make_wt(wt)
    t0 = time.time()
    for k, m in enumerate(todo):
        apply(wt, m)
        first, rest = check_order(m, bycheck)
        order = first + ([] if (only_cov and first) else rest)
        if maxchecks:
            order = order[:maxchecks]
        out = {"ran": [], "caught": None, "harness": []}
        for cid in order:
            env = dict(os.environ, G3DVERIF_REPO=wt, PYTHONDONTWRITEBYTECODE="1")
            r = subprocess.run(["/venv/bin/python", "-m", "g3dverif.run", cid, "--tier", "quick", "--no-evidence"], cwd=V, env=env, capture_output=True, text=True)
            out["ran"].append(cid)
            if r.returncode == 1:
                sig = [l.strip() for l in r.stdout.splitlines() if "sig=" in l]
                out["caught"] = cid
                out["sig"] = sig[:1]
                break
            if r.returncode != 0:
                out["harness"].append([cid, (r.stderr or r.stdout)[-400:]])
        restore(wt, m)
        res[m["id"]]["checks"] = out
        save(outdir, res)
        print("%d/%d %s %s:%d %s %r->%r  %s  (%.0fs)" % (k + 1, len(todo), m["id"], m["file"], m["line"], m["kind"], m["old"][:30], m["new"][:30],
              ("caught by " + out["caught"]) if out["caught"] else ("SURVIVED " + ",".join(out["ran"])) + (" HARNESS" if out["harness"] else ""), time.time() - t0), flush=True)
    shutil.rmtree(wt, ignore_errors=True)


def report(outdir):
    muts, res = load(outdir)
    import collections
    c = collections.Counter()
    surv = []
    for m in muts:
        r = res.get(m["id"], {})
        if r.get("tests") == "fail":
            c["killed by the 87 tests"] += 1
        elif r.get("tests") == "pass":
            ch = r.get("checks")
            if ch is None:
                c["pass tests, not yet checked"] += 1
            elif ch["caught"]:
                c["pass tests, caught by a quick check"] += 1
            else:
                c["pass tests, SURVIVED"] += 1
                surv.append((m, ch))
        else:
            c["untested"] += 1
    for k, v in c.items():
        print("%5d  %s" % (v, k))
    text_cache = {}
    for m, ch in surv:
        t = text_cache.setdefault(m["file"], open(os.path.join(REPO, m["file"])).read().splitlines())
        print("%s %s:%d [%s] %r -> %r   ran=%s%s\n      %s" % (m["id"], m["file"], m["line"], m["kind"], m["old"][:40], m["new"][:40], ",".join(ch["ran"]),
              " HARNESS:" + ch["harness"][0][0] if ch["harness"] else "", t[m["line"] - 1].strip()))


if __name__ == "__main__":
    cmd, outdir = sys.argv[1], sys.argv[2]
    a = sys.argv[3:]

    def opt(name, default=None):
        return a[a.index(name) + 1] if name in a else default

    if cmd == "gen":
        gen(outdir)
    elif cmd == "tests":
        stage_tests(outdir, int(opt("-j", "16")))
    elif cmd == "checks":
        stage_checks(outdir, int(opt("--limit", "0")), opt("--cov"), int(opt("--seed", "0")), only_cov="--all-checks" not in a,
                     kinds=set(opt("--kinds").split(",")) if opt("--kinds") else None, maxchecks=int(opt("--maxchecks", "0")))
    elif cmd == "report":
        report(outdir)
