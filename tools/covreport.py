#!/venv/bin/python
"""development aid: tools/covreport.py <covdir> [repo]  -- library lines never executed under the checks
(run the checks with G3DVERIF_COV=<covdir> first). Prints uncovered executable lines per file and,
per line, which checks reach it (--by-check)."""
import sys, os, json, ast, glob, collections

covdir = sys.argv[1]
repo = sys.argv[2] if len(sys.argv) > 2 and not sys.argv[2].startswith("--") else "/repo"
root = os.path.join(repo, "Geometry3D")
hit = collections.defaultdict(set)
for f in glob.glob(os.path.join(covdir, "*.json")):
    cid = os.path.basename(f).split("_")[0]
    for fn, ln in json.load(open(f)):
        hit[(fn, ln)].add(cid)


def exec_lines(path):
    src = open(path).read()
    tree = ast.parse(src)
    lines = set()
    for node in ast.walk(tree):
        if isinstance(node, ast.stmt) and not isinstance(node, (ast.FunctionDef, ast.ClassDef, ast.Import, ast.ImportFrom)):
            if isinstance(node, ast.Expr) and isinstance(node.value, ast.Constant) and isinstance(node.value.value, str):
                continue
            lines.add(node.lineno)
    return lines, src.splitlines()


tot = cov = 0
for dp, dn, fns in os.walk(root):
    if "visualization" in dp:
        continue
    for fn in sorted(fns):
        if not fn.endswith(".py"):
            continue
        path = os.path.join(dp, fn)
        rel = os.path.relpath(path, root)
        lines, src = exec_lines(path)
        miss = sorted(l for l in lines if (rel, l) not in hit)
        tot += len(lines)
        cov += len(lines) - len(miss)
        if miss:
            print("== %s: %d/%d uncovered" % (rel, len(miss), len(lines)))
            for l in miss:
                print("  %4d  %s" % (l, src[l - 1].rstrip()))
print("TOTAL %d/%d executable statements covered" % (cov, tot))
if "--by-check" in sys.argv:
    out = collections.defaultdict(list)
    for (fn, ln), cs in hit.items():
        out[fn].append((ln, sorted(cs)))
    json.dump({k: sorted(v) for k, v in out.items()}, open(os.path.join(covdir, "by_check.json"), "w"))
