#!/bin/bash
# usage: tools/runall.sh [tier] [seeds...]   runs every registered check; prints one line per run
TIER=${1:-quick}; shift
SEEDS=${@:-0}
cd "$(dirname "$(readlink -f "$0")")/.."
for s in $SEEDS; do
  for i in 01 02 03 04 05 06 07 08 09 10 11 12 13 14 15 16 17 18 19 20; do
    out=$(VERIF_SEED=$s /venv/bin/python -m g3dverif.run C$i --tier $TIER ${NOEV:+--no-evidence} 2>&1)
    rc=$?
    echo "rc=$rc $(echo "$out" | tail -1)"
    if [ $rc -ne 0 ]; then echo "$out" | head -12; fi
  done
done
