#!/usr/bin/env python3
"""Re-run the recorded catching checks for every seeded change against /repo HEAD (development tooling).
usage: tools/seed_regress.py [id-prefix ...]   prints one line per change; updates meta.json['regression']"""
import glob, json, os, subprocess, sys
V = os.path.dirname(os.path.dirname(os.path.abspath(__file__)))
W = os.environ.get("W", "/root/scratch/mut")
def sh(cmd, **kw):
    return subprocess.run(cmd, shell=True, capture_output=True, text=True, **kw)
head = sh("git -C /repo rev-parse HEAD").stdout.strip()
sh("git -C %s checkout -q --detach %s; git -C %s checkout -- .; git -C %s clean -fdq" % (W, head, W, W))
sel = sys.argv[1:]
bad = 0
for m in sorted(glob.glob(os.path.join(V, "seeded", "*", "meta.json"))):
    d = os.path.dirname(m)
    meta = json.load(open(m))
    if sel and not any(meta["id"].startswith(s) for s in sel):
        continue
    r = sh("git -C %s apply %s/patch.diff" % (W, d))
    if r.returncode:
        print(meta["id"], "PATCH-NO-LONGER-APPLIES")
        meta["regression"] = {"repo_head": head, "status": "patch does not apply to this HEAD"}
        json.dump(meta, open(m, "w"), indent=1)
        bad += 1
        continue
    env = dict(os.environ, G3D_PATH=W, PYTHONPATH=W, PYTHONDONTWRITEBYTECODE="1")
    tests = sh("cd %s && /venv/bin/python -m pytest -q -p no:cacheprovider 2>&1 | tail -1" % W, env=env).stdout.strip()
    demo = sh("/venv/bin/python %s/demo.py" % d, env=env, cwd=W).returncode
    checks = [c for c in meta.get("caught_by_quick_checks", {}) if "harness" not in c] or [meta["breaks_property"]]
    caught = []
    for cid in checks:
        rr = sh("G3DVERIF_REPO=%s /venv/bin/python -m g3dverif.run %s --tier quick --no-evidence" % (W, cid), cwd=V)
        if rr.returncode == 1:
            caught.append(cid)
        elif rr.returncode != 0:
            caught.append(cid + "(harness-error)")
    sh("git -C %s checkout -- .; git -C %s clean -fdq" % (W, W))
    ok = bool([c for c in caught if "harness" not in c])
    print(meta["id"], "tests:", tests.split(" in ")[0], "demo-exit:", demo, "caught:", caught or "NONE")
    meta["regression"] = {"repo_head": head, "tests": tests, "demo_exit_with_patch": demo, "caught_by": caught}
    json.dump(meta, open(m, "w"), indent=1)
    if not ok:
        bad += 1
print("not caught / not applicable:", bad)
