#!/usr/bin/env python3
"""Regenerate MANIFEST.json from the table below (claimed checks) and properties.jsonl."""
import json, os, sys
HERE = os.path.dirname(os.path.dirname(os.path.abspath(__file__)))
PY = "/venv/bin/python"

# id -> (technique, level text, level note, design ref)
CLAIMED = json.load(open(os.path.join(HERE, "tools", "claimed.json")))

def main():
    props = [json.loads(l) for l in open(os.path.join(HERE, "properties.jsonl"))]
    checks = []
    na = []
    for p in props:
        pid = p["id"]
        c = CLAIMED.get(pid)
        if not c or c.get("not_applicable"):
            na.append({"property_id": pid, "reason": (c or {}).get("not_applicable", "check not built yet in this session; see DESIGN.md section 3 for the planned generator and oracle")})
            continue
        checks.append({
            "property_id": pid,
            "quick_cmd": "%s -m g3dverif.run %s --tier quick" % (PY, pid),
            "thorough_cmd": "%s -m g3dverif.run %s --tier thorough" % (PY, pid),
            "evidence_file": "/verif/evidence/%s.json" % pid,
            "replay_cmd_template": "%s -m g3dverif.run %s --replay {path}" % (PY, pid),
            "engine": "g3dverif",
            "level_claimed": {"category": "exploration", "text": c["text"], "design_ref": c.get("design_ref", "DESIGN.md section 3, " + pid)},
            "level_note": c["note"],
            "technique": c["technique"],
        })
    m = {
        "version": 1,
        "setup_cmd": "/venv/bin/python -c 'import hypothesis' 2>/dev/null || /venv/bin/pip install -q --no-index --find-links /opt/veriftools/wheels hypothesis; (PYTHONPATH=/verif/.deps /venv/bin/python -c 'import atheris' 2>/dev/null || /venv/bin/pip install -q --no-index --find-links /opt/veriftools/wheels --target /verif/.deps atheris || true); cd /verif && /venv/bin/python -m g3dverif.selftest",
        "hooks": {
            "guard": "GEOMETRY3D_VERIF",
            "enable": "no source hooks are needed: the library is pure Python and every check imports Geometry3D from /repo's working tree (G3DVERIF_REPO overrides the path) in fresh subprocesses; the guard variable is set to 1 by the harness for completeness",
            "baseline_off_cmd": "cd /repo && /venv/bin/python -m pytest -ra -q -p no:cacheprovider --timeout=900 --continue-on-collection-errors",
            "source_commits": [],
            "add_only": True,
        },
        "engines": [{
            "name": "g3dverif",
            "path": "/verif/g3dverif",
            "serves_properties": [c["property_id"] for c in checks],
            "kind_free_text": "property-based testing with Hypothesis (stratified strategies, rule-based state machines) and bounded-exhaustive enumeration against an exact rational reference kernel; 16 shard subprocesses with pinned PYTHONHASHSEED",
        }],
        "checks": checks,
        "not_applicable": na,
        "notes": "All checks: python -m g3dverif.run <ID> --tier quick|thorough (cwd /verif). Exit 0 held / only known findings, 1 VIOLATION, 2 harness error. VERIF_SEED selects the Hypothesis seeds and the per-shard PYTHONHASHSEED. Known findings and fixed defects: known_findings.json.",
    }
    if not na:
        m["not_applicable"] = []
    json.dump(m, open(os.path.join(HERE, "MANIFEST.json"), "w"), indent=1)
    print("claimed", len(checks), "not claimed", len(na))

main()
