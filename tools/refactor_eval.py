#!/usr/bin/env python3
"""tools/refactor_eval.py <src_dir> <id>: apply a behaviour-preserving refactor to the scratch worktree, run the 87
tests and ALL 20 quick checks against it. Any VIOLATION is a false-alarm candidate (or the refactor is not
behaviour-preserving after all) and must be looked at. Stores the result under /verif/refactors/<id>/."""
import json, os, shutil, subprocess, sys
V = os.path.dirname(os.path.dirname(os.path.abspath(__file__)))
W = "/root/scratch/mut"
def sh(cmd, **kw):
    return subprocess.run(cmd, shell=True, capture_output=True, text=True, **kw)
src, rid = sys.argv[1], sys.argv[2]
head = sh("git -C /repo rev-parse HEAD").stdout.strip()
sh("git -C %s checkout -q --detach %s; git -C %s checkout -- .; git -C %s clean -fdq" % (W, head, W, W))
r = sh("git -C %s apply %s/patch.diff" % (W, src))
if r.returncode:
    print(rid, "PATCH DOES NOT APPLY", r.stderr[:200]); sys.exit(1)
env = dict(os.environ, G3D_PATH=W, PYTHONPATH=W, PYTHONDONTWRITEBYTECODE="1")
tests = sh("cd %s && /venv/bin/python -m pytest -q -p no:cacheprovider 2>&1 | tail -1" % W, env=env).stdout.strip()
alarms = {}
for i in range(1, 21):
    cid = "C%02d" % i
    rr = sh("G3DVERIF_REPO=%s /venv/bin/python -m g3dverif.run %s --tier quick --no-evidence" % (W, cid), cwd=V)
    if rr.returncode != 0:
        sigs = [l.strip() for l in rr.stdout.splitlines() if l.strip().startswith(("stratum=", "VIOLATION"))]
        alarms[cid] = {"exit": rr.returncode, "lines": sigs[:6], "stderr": rr.stderr[-400:]}
        d = os.path.join("/tmp/refactor_replays", rid, cid)
        os.makedirs(d, exist_ok=True)
        sh("cp -r %s/replays/%s/* %s/ 2>/dev/null" % (V, cid, d))
sh("git -C %s checkout -- .; git -C %s clean -fdq" % (W, W))
sh("rm -rf %s/replays" % V)
meta = {"id": rid, "repo_head": head, "tests_with_patch": tests, "quick_checks_reporting": alarms,
        "all_20_quick_checks_silent": not alarms}
d = os.path.join(V, "refactors", rid)
os.makedirs(d, exist_ok=True)
for f in ("patch.diff", "note.md", "demo.py"):
    if os.path.exists(os.path.join(src, f)):
        shutil.copy(os.path.join(src, f), d)
json.dump(meta, open(os.path.join(d, "meta.json"), "w"), indent=1)
print(rid, tests.split(" in ")[0], "| alarms:", {k: v["lines"][:2] for k, v in alarms.items()} or "none")
