#!/bin/bash
# tools/eval_round.sh <round-number>: evaluate every finished, not yet stored candidate under /tmp/mutants<round>/
R=$1
cd "$(dirname "$(readlink -f "$0")")/.."
for d in /tmp/mutants$R/C*/m*; do
  [ -f $d/patch.diff ] && [ -f $d/demo.py ] && [ -f $d/note.md ] || continue
  p=$(basename $(dirname $d)); k=$(basename $d)
  id="$p-r${R}$k"
  [ -d seeded/$id ] && continue
  grep -q "^$id " /tmp/eval_round$R.done 2>/dev/null && continue
  out=$(python3 tools/seed_eval.py $d $id $p $p)
  echo "$out"
  echo "$out" >> /tmp/eval_round$R.done
done
