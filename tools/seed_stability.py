#!/usr/bin/env python3
"""development aid: for every seeded change, run its catching check(s) at several VERIF_SEED values and record how often
the change is reported.  usage: tools/seed_stability.py <out.json> <seed> [<seed> ...] [--only prefix]
Uses its own scratch copy (removed at the end)."""
import glob, json, os, subprocess, sys, shutil
V = os.path.dirname(os.path.dirname(os.path.abspath(__file__)))
W = "/root/scratch/stab"
def sh(cmd, **kw):
    return subprocess.run(cmd, shell=True, capture_output=True, text=True, **kw)
out = sys.argv[1]
args = sys.argv[2:]
only = None
if "--only" in args:
    only = args[args.index("--only") + 1]; args = args[:args.index("--only")]
seeds = [int(s) for s in args]
head = sh("git -C /repo rev-parse HEAD").stdout.strip()
if os.path.exists(W):
    sh("git -C /repo worktree remove --force %s" % W)
sh("git -C /repo worktree add --detach %s %s" % (W, head))
res = json.load(open(out)) if os.path.exists(out) else {}
for m in sorted(glob.glob(os.path.join(V, "seeded", "*", "meta.json"))):
    d = os.path.dirname(m)
    meta = json.load(open(m))
    sid = meta["id"]
    if only and not sid.startswith(only):
        continue
    reg = meta.get("regression", {})
    if "status" in reg:
        continue
    checks = [c for c in (reg.get("caught_by") or meta.get("caught_by_quick_checks", {})) if "harness" not in c]
    if not checks:
        continue
    prop = meta["breaks_property"]
    cid = prop if prop in checks else checks[0]
    if sh("git -C %s apply %s/patch.diff" % (W, d)).returncode:
        continue
    r = res.setdefault(sid, {"check": cid, "seeds": {}})
    for s in seeds:
        if str(s) in r["seeds"]:
            continue
        rr = sh("G3DVERIF_SHRINK_BUDGET=5 VERIF_SEED=%d G3DVERIF_REPO=%s /venv/bin/python -m g3dverif.run %s --tier quick --no-evidence" % (s, W, cid), cwd=V)
        r["seeds"][str(s)] = rr.returncode
    sh("git -C %s checkout -- .; git -C %s clean -fdq" % (W, W))
    json.dump(res, open(out, "w"), indent=0)
    miss = [s for s, rc in r["seeds"].items() if rc != 1]
    print(sid, cid, "missed at seeds", miss if miss else "-", flush=True)
sh("git -C /repo worktree remove --force %s" % W)
