"""Descriptors -> library objects (public constructors only) and library results -> float
denotations (public attributes only); the comparator same_set."""
import math
from fractions import Fraction as F

from .common import lib
from . import exact as X

KIND_OF = {
    "Point": "P",
    "Line": "L",
    "HalfLine": "H",
    "Segment": "S",
    "Plane": "PL",
    "ConvexPolygon": "G",
    "ConvexPolyhedron": "K",
}
TYPE_OF = {v: k for k, v in KIND_OF.items()}
ALL_KINDS = ("P", "L", "H", "S", "PL", "G", "K")


def conv(x, ctype):
    if ctype == "mixed":
        return float(x)
    if ctype is float:
        return float(x)
    if ctype is F:
        return F(x)
    if ctype is int:
        x = F(x)
        return int(x) if x.denominator == 1 else float(x)
    raise ValueError(ctype)


MIXED = "mixed"  # one Point / Vector whose coordinates are a Fraction, a float and an int (where integral)


def _types(ctype):
    return (F, float, int) if ctype == MIXED else (ctype, ctype, ctype)


def pt(p, ctype=float):
    G = lib()
    t = _types(ctype)
    return G.Point(conv(p[0], t[0]), conv(p[1], t[1]), conv(p[2], t[2]))


def vec(v, ctype=float):
    G = lib()
    t = _types(ctype)
    return G.Vector(conv(v[0], t[0]), conv(v[1], t[1]), conv(v[2], t[2]))


def _build_raw(o, ctype=float, form=0):
    """construct the library object for an exact descriptor through the public constructors.
    form selects among equivalent constructor forms / argument orders where they exist:
      Line: 0 (Point, Vector) 1 (Point, Point) 2 (Vector, Vector)
      HalfLine: 0 (Point, Vector) 1 (Point, Point);  Segment: 0 (Point, Point) 1 (Point, Vector) 2/3 (Point, Point) with the end / start point then replaced by item assignment
      Plane: 0 (Point, normal) 1 three points 2 (Point, Vector, Vector) 3 general form
      ConvexPolygon: vertex list rotated by form;  ConvexPolyhedron: face list rotated by form, odd
      forms additionally hand every second face over negated"""
    G = lib()
    if o is None:
        return None
    k = o[0]
    if k == "P":
        return pt(o[1], ctype)
    if k == "L":
        if form % 3 == 1:
            return G.Line(pt(o[1], ctype), pt(X.add(o[1], o[2]), ctype))
        if form % 3 == 2:
            return G.Line(vec(o[1], ctype), vec(o[2], ctype))
        return G.Line(pt(o[1], ctype), vec(o[2], ctype))
    if k == "H":
        if form % 2 == 1:
            return G.HalfLine(pt(o[1], ctype), pt(X.add(o[1], o[2]), ctype))
        return G.HalfLine(pt(o[1], ctype), vec(o[2], ctype))
    if k == "S":
        if form % 4 == 1:
            return G.Segment(pt(o[1], ctype), vec(X.sub(o[2], o[1]), ctype))
        if form % 4 in (2, 3):
            # built with another end point, which is then replaced through the documented item assignment
            d = X.sub(o[2], o[1])
            u, _v = X.perp2(d)
            w = X.add(u, X.mul(F(1, 2), d))
            if form % 4 == 2:
                s = G.Segment(pt(o[1], ctype), pt(X.add(o[2], w), float))
                s[1] = pt(o[2], ctype)
            else:
                s = G.Segment(pt(X.sub(o[1], w), float), pt(o[2], ctype))
                s[0] = pt(o[1], ctype)
            return s
        return G.Segment(pt(o[1], ctype), pt(o[2], ctype))
    if k == "PL":
        f = form % 4
        if f in (1, 2):
            u, v = X.perp2(o[2])
            if f == 1:
                return G.Plane(pt(o[1], ctype), pt(X.add(o[1], u), ctype), pt(X.add(o[1], v), ctype))
            return G.Plane(pt(o[1], ctype), vec(u, ctype), vec(v, ctype))
        if f == 3:
            n = o[2]
            d = X.dot(n, o[1])
            return G.Plane(conv(n[0], ctype), conv(n[1], ctype), conv(n[2], ctype), conv(d, ctype))
        return G.Plane(pt(o[1], ctype), vec(o[2], ctype))
    if k == "G":
        m = len(o[1])
        r = form % m
        pts = list(o[1][r:]) + list(o[1][:r])
        return G.ConvexPolygon(tuple(pt(p, ctype) for p in pts))
    if k == "K":
        faces = []
        nf = len(o[2])
        r = form % nf
        order = list(range(r, nf)) + list(range(r))
        for j, fi in enumerate(order):
            idx = o[2][fi][2]
            poly = G.ConvexPolygon(tuple(pt(o[1][i], ctype) for i in idx))
            if form % 2 == 1 and j % 2 == 1:
                poly = -poly
            faces.append(poly)
        return G.ConvexPolyhedron(tuple(faces))
    raise ValueError(k)


def build(o, ctype=float, form=0):
    """guarded construction: the descriptors handed to build() are valid by exact construction, so a constructor
    that raises is a failure of whatever property is being checked (its operands cannot even be formed); it is
    reported as a Fail, never as a harness error"""
    from .engine import Fail

    try:
        return _build_raw(o, ctype, form)
    except Exception as e:  # noqa
        raise Fail(
            "constructing a valid %s (form %d, %s coordinates) raises %s" % (o[0], form, getattr(ctype, "__name__", ctype), exc_sig(e)),
            {"operand": o, "error": repr(e)},
            {"constructor": True},
        )


CT = {"f": float, "i": int}
DEFAULT_VAR = ("f", 0, "f", 0)


def build_var(a, b, var):
    """build an operand pair under a variant (ctype_a, form_a, ctype_b, form_b).  The descriptors are valid
    by construction, so a constructor that raises is itself a failure of the property under test (its
    operands cannot even be formed) and is reported as such, not as a harness error."""
    return build(a, CT[var[0]], var[1]), build(b, CT[var[2]], var[3])


def _xyz(p):
    return (float(p.x), float(p.y), float(p.z))


def _v3(v):
    return (float(v[0]), float(v[1]), float(v[2]))


def denote(r):
    """float denotation of a library result using public attributes only"""
    G = lib()
    if r is None:
        return None
    if isinstance(r, G.Point):
        return ("P", _xyz(r))
    if isinstance(r, G.Segment):
        return ("S", _xyz(r.start_point), _xyz(r.end_point))
    if isinstance(r, G.HalfLine):
        return ("H", _xyz(r.point), _v3(r.vector))
    if isinstance(r, G.Line):
        return ("L", _v3(r.sv), _v3(r.dv))
    if isinstance(r, G.Plane):
        return ("PL", _xyz(r.p), _v3(r.n))
    if isinstance(r, G.ConvexPolygon):
        return ("G", [_xyz(p) for p in r.points])
    if isinstance(r, G.ConvexPolyhedron):
        return (
            "K",
            [_xyz(p) for p in r.point_set],
            len(r.convex_polygons),
            len(r.segment_set),
        )
    return ("?", type(r).__name__, repr(r)[:200])


def kind_name(d):
    return "None" if d is None else d[0]


TOL = 1e-7


def _close(p, q, tol=TOL):
    return abs(p[0] - q[0]) <= tol and abs(p[1] - q[1]) <= tol and abs(p[2] - q[2]) <= tol


def _fcross(a, b):
    return (a[1] * b[2] - a[2] * b[1], a[2] * b[0] - a[0] * b[2], a[0] * b[1] - a[1] * b[0])


def _fdot(a, b):
    return a[0] * b[0] + a[1] * b[1] + a[2] * b[2]


def _fnorm(a):
    return math.sqrt(_fdot(a, a))


def _parallel(u, v, tol=1e-9):
    nu, nv = _fnorm(u), _fnorm(v)
    if nu == 0 or nv == 0 or not (math.isfinite(nu) and math.isfinite(nv)):
        return False
    return _fnorm(_fcross(u, v)) / (nu * nv) < tol


def _match_sets(ps, qs, tol=TOL):
    """every p matches a distinct q and vice versa"""
    if len(ps) != len(qs):
        return False
    used = [False] * len(qs)
    for p in ps:
        hit = None
        for j, q in enumerate(qs):
            if not used[j] and _close(p, q, tol):
                hit = j
                break
        if hit is None:
            return False
        used[hit] = True
    return True


def fdesc(o):
    """exact descriptor -> float descriptor of the same shape"""
    if o is None:
        return None
    k = o[0]
    if k == "P":
        return ("P", X.fl(o[1]))
    if k in ("L", "H", "PL"):
        return (k, X.fl(o[1]), X.fl(o[2]))
    if k == "S":
        return ("S", X.fl(o[1]), X.fl(o[2]))
    if k == "G":
        return ("G", [X.fl(p) for p in o[1]])
    if k == "K":
        return ("K", [X.fl(p) for p in o[1]], len(o[2]), len(X.edges_of(o)))
    raise ValueError(k)


def same_set(e, g, tol=TOL):
    """do two float denotations denote the same point set?  (e is usually fdesc(exact result))
    Returns None if same, else a short reason string."""
    if e is None or g is None:
        if e is None and g is None:
            return None
        return "kind %s vs %s" % (kind_name(e), kind_name(g))
    if e[0] != g[0]:
        return "kind %s vs %s" % (e[0], g[0])
    k = e[0]
    if k == "P":
        return None if _close(e[1], g[1], tol) else "point differs"
    if k == "S":
        if _match_sets([e[1], e[2]], [g[1], g[2]], tol):
            return None
        return "segment endpoints differ"
    if k == "H":
        if not _close(e[1], g[1], tol):
            return "half-line origin differs"
        if not _parallel(e[2], g[2]) or _fdot(e[2], g[2]) <= 0:
            return "half-line direction differs"
        return None
    if k == "L":
        if not _parallel(e[2], g[2]):
            return "line direction differs"
        w = (g[1][0] - e[1][0], g[1][1] - e[1][1], g[1][2] - e[1][2])
        # distance of g's support point from e's line
        d = _fnorm(_fcross(w, e[2])) / _fnorm(e[2])
        return None if d <= tol else "line support point off by %.3g" % d
    if k == "PL":
        if not _parallel(e[2], g[2]):
            return "plane normal differs"
        w = (g[1][0] - e[1][0], g[1][1] - e[1][1], g[1][2] - e[1][2])
        d = abs(_fdot(w, e[2])) / _fnorm(e[2])
        return None if d <= tol else "plane offset differs by %.3g" % d
    if k == "G":
        if _match_sets(e[1], g[1], tol):
            return None
        return "polygon vertex sets differ (%d vs %d vertices)" % (len(e[1]), len(g[1]))
    if k == "K":
        if not _match_sets(e[1], g[1], tol):
            return "polyhedron vertex sets differ (%d vs %d vertices)" % (len(e[1]), len(g[1]))
        if len(e) > 2 and len(g) > 2 and (e[2] != g[2] or e[3] != g[3]):
            return "polyhedron face/edge counts differ (F %s vs %s, E %s vs %s)" % (e[2], g[2], e[3], g[3])
        return None
    return "unknown kind %s" % k


def call(fn, *args):
    """call into the library; returns ('ok', value) or ('raise', exception)"""
    from .engine import Fail

    try:
        return "ok", fn(*args)
    except Fail:
        raise
    except Exception as e:  # noqa: the library's failure is data for the oracle
        return "raise", e


def exc_sig(e):
    msg = str(e)
    if "Bug detected" in msg:
        return "%s(Bug detected)" % type(e).__name__
    return type(e).__name__
