"""Hypothesis strategies. Everything is built from drawn integers by exact construction."""
import itertools
from fractions import Fraction as F

from hypothesis import strategies as st, assume

from . import exact as X

# ---------------------------------------------------------------- lattice
DENS = (1, 1, 2, 4)


@st.composite
def lattice_point(draw, R=8):
    den = draw(st.sampled_from(DENS))
    return tuple(F(draw(st.integers(-R * den, R * den)), den) for _ in range(3))


@st.composite
def int_point(draw, R=4):
    return tuple(F(draw(st.integers(-R, R))) for _ in range(3))


AXIS_DIRS = [
    d for d in itertools.product((-1, 0, 1), repeat=3) if any(d)
]  # the 26 lattice directions


@st.composite
def direction(draw, R=3):
    """small non-zero integer vector; the 26 lattice directions are weighted up"""
    mode = draw(st.integers(0, 6))
    if mode == 6:
        # short vectors (length well below 1): absolute thresholds on unnormalised directions show up here
        q = tuple(F(draw(st.integers(-3, 3)), 4) for _ in range(3))
        assume(any(q))
        return q
    if mode <= 1:
        d = draw(st.sampled_from(AXIS_DIRS))
    else:
        d = (draw(st.integers(-R, R)), draw(st.integers(-R, R)), draw(st.integers(-R, R)))
        assume(any(d))
    d = tuple(F(x) for x in d)
    if mode == 5:
        # quarter-lattice components (e.g. 3.25, -0.75): exactly representable but with inexact quotients
        q = tuple(F(draw(st.integers(-15, 15)), 4) for _ in range(3))
        assume(any(q))
        d = q
    return d


SCALES = (F(1), F(-1), F(2), F(-2), F(3), F(1, 2), F(-1, 2), F(-3))
T_TABLE = (F(-1), F(-1, 2), F(0), F(1, 4), F(1, 2), F(1), F(3, 2), F(2))


@st.composite
def free_flat(draw, kind):
    if kind == "P":
        return ("P", draw(lattice_point()))
    if kind in ("L", "H"):
        return (kind, draw(lattice_point(6)), draw(direction()))
    if kind == "S":
        p = draw(lattice_point(6))
        d = draw(direction())
        k = draw(st.sampled_from((F(1), F(1, 2), F(2), F(3, 2))))
        return ("S", p, X.add(p, X.mul(k, d)))
    if kind == "PL":
        return ("PL", draw(lattice_point(6)), draw(direction()))
    raise ValueError(kind)


def carrier_dir(o):
    if o[0] == "S":
        return X.sub(o[2], o[1])
    return o[2]


@st.composite
def point_on(draw, o, inside=None):
    """a lattice-ish point on the carrier of flat o (for S/H: parameter from T_TABLE)"""
    k = o[0]
    if k == "P":
        return o[1]
    if k in ("L", "H", "S"):
        t = draw(st.sampled_from(T_TABLE))
        return X.add(o[1], X.mul(t, carrier_dir(o)))
    if k == "PL":
        u, v = X.perp2(o[2])
        i = draw(st.integers(-3, 3))
        j = draw(st.integers(-3, 3))
        h = draw(st.sampled_from((1, 1, 2)))
        return X.add(o[1], X.add(X.mul(F(i, h), u), X.mul(F(j, h), v)))
    raise ValueError(k)


@st.composite
def dir_not_parallel(draw, d):
    e = draw(direction())
    assume(not X.is_zero(X.cross(e, d)))
    return e


@st.composite
def dir_in_plane(draw, n):
    u, v = X.perp2(n)
    i = draw(st.integers(-2, 2))
    j = draw(st.integers(-2, 2))
    assume(i != 0 or j != 0)
    return X.add(X.mul(F(i), u), X.mul(F(j), v))


@st.composite
def dir_crossing_plane(draw, n):
    e = draw(direction())
    assume(X.dot(e, n) != 0)
    return e


@st.composite
def offset_from_line(draw, d):
    """non-zero lattice vector orthogonal to d"""
    u, v = X.perp2(d)
    i = draw(st.integers(-2, 2))
    j = draw(st.integers(-2, 2))
    assume(i != 0 or j != 0)
    h = draw(st.sampled_from((1, 2, 4)))
    return X.add(X.mul(F(i, h), u), X.mul(F(j, h), v))


def is_zero_cross(u, v):
    return X.is_zero(X.cross(u, v))


def mk1d(kind, p, d, length=F(1)):
    """1-D flat of the given kind with support p, direction d (segment: p .. p+length*d)"""
    if kind == "S":
        return ("S", p, X.add(p, X.mul(length, d)))
    return (kind, p, d)


# extents on a common carrier, in the base's parameter: (s0, s1) pairs realising interval relations
# with the base segment [0,1] / base ray [0,inf)
EXTENTS = (
    (F(2), F(3)),  # disjoint beyond the end
    (F(-2), F(-1)),  # disjoint before the start
    (F(1), F(2)),  # touching at the end
    (F(-1), F(0)),  # touching at the start
    (F(1, 2), F(2)),  # overlapping the end
    (F(-1), F(1, 2)),  # overlapping the start
    (F(1, 4), F(3, 4)),  # nested inside
    (F(-1), F(2)),  # containing
    (F(0), F(1)),  # equal
    (F(0), F(1, 2)),  # shares the start, nested
    (F(1, 2), F(1)),  # shares the end, nested
    (F(0), F(2)),  # shares the start, longer
)


@st.composite
def related_flat(draw, a, kb, recipe):
    """second operand of kind kb built from base flat a according to recipe"""
    ka = a[0]
    if recipe == "free":
        return draw(free_flat(kb))
    # ---------------- b is a point
    if kb == "P" and recipe == "hash-quirk":
        # a different point that differs only by -1 <-> -2 in one coordinate (every rounded-float hash collides)
        p = list(a[1])
        i = draw(st.integers(0, 2))
        lo, hi = draw(st.sampled_from(((F(-1), F(-2)), (F(-2), F(-1)))))
        for j in range(3):
            if j != i and draw(st.booleans()):
                p[j] = F(draw(st.sampled_from((0, 1, 0))))
        q = list(p)
        p[i], q[i] = lo, hi
        return ("P", tuple(q)), tuple(p)
    if kb == "P":
        if recipe == "on":
            return ("P", draw(point_on(a)))
        if recipe == "off":
            q = draw(point_on(a))
            if ka == "P":
                off = draw(direction())
                return ("P", X.add(q, X.mul(draw(st.sampled_from((F(1), F(1, 2), F(1, 4)))), off)))
            if ka == "PL":
                return ("P", X.add(q, X.mul(draw(st.sampled_from((F(1), F(-1), F(1, 2), F(-1, 4)))), a[2])))
            return ("P", X.add(q, draw(offset_from_line(carrier_dir(a)))))
    # ---------------- a is a point: b passes through it (or near it)
    if ka == "P":
        p = a[1]
        if kb in ("L", "H", "S"):
            d = draw(direction())
            t = draw(st.sampled_from(T_TABLE))
            sup = X.sub(p, X.mul(t, d))
            if recipe == "off":
                sup = X.add(sup, draw(offset_from_line(d)))
            return mk1d(kb, sup, d)
        if kb == "PL":
            n = draw(direction())
            q = X.add(p, draw(dir_in_plane(n))) if draw(st.booleans()) else p
            if recipe == "off":
                q = X.add(q, X.mul(draw(st.sampled_from((F(1), F(-1), F(1, 2)))), n))
            return ("PL", q, n)
    # ---------------- both 1-D
    if ka in ("L", "H", "S") and kb in ("L", "H", "S"):
        d = carrier_dir(a)
        p = a[1]
        if recipe == "collinear":
            s0, s1 = draw(st.sampled_from(EXTENTS))
            flip = draw(st.booleans())
            if kb == "S":
                e0, e1 = (s1, s0) if flip else (s0, s1)
                return ("S", X.add(p, X.mul(e0, d)), X.add(p, X.mul(e1, d)))
            k = draw(st.sampled_from(SCALES))
            if kb == "H":
                # ray starting at s0 (or s1) pointing along sign(k)
                start = draw(st.sampled_from((s0, s1)))
                return ("H", X.add(p, X.mul(start, d)), X.mul(k, d))
            return ("L", X.add(p, X.mul(s0, d)), X.mul(k, d))
        if recipe == "parallel-off":
            k = draw(st.sampled_from(SCALES))
            sup = X.add(X.add(p, X.mul(draw(st.sampled_from(T_TABLE)), d)), draw(offset_from_line(d)))
            return mk1d(kb, sup, X.mul(k, d))
        if recipe == "touch":
            # collinear, sharing exactly one point with the base's extent
            k = draw(st.sampled_from(SCALES))
            if ka == "S":
                end, outward = draw(st.sampled_from(((F(0), F(-1)), (F(1), F(1)))))
            else:  # H (a line has no end to touch)
                end, outward = F(0), F(-1)
            e0 = X.add(p, X.mul(end, d))
            if kb == "S":
                e1 = X.add(e0, X.mul(outward * abs(k), d))
                return ("S", e0, e1) if draw(st.booleans()) else ("S", e1, e0)
            if kb == "H":
                return ("H", e0, X.mul(outward * abs(k), d))
            return ("L", e0, X.mul(k, d))
        if recipe == "cross-shared-projection":
            # crossing carriers whose direction vectors have parallel projections on a coordinate plane (both lines lie
            # in a plane containing a coordinate axis): an elimination on coordinates meets a dependent 2x2 block first
            i = draw(st.integers(0, 2))
            assume(any(d[j] != 0 for j in range(3) if j != i))
            k = draw(st.sampled_from(SCALES))
            e = [k * c for c in d]
            e[i] = e[i] + draw(st.sampled_from((F(1), F(-1), F(1, 4), F(-3, 4), F(2))))
            e = tuple(e)
            assume(not is_zero_cross(e, d))
            ta = draw(st.sampled_from((F(0), F(1, 4), F(1, 2), F(1))))
            tb = draw(st.sampled_from((F(0), F(1, 4), F(1, 2), F(1))))
            hit = X.add(p, X.mul(ta, d))
            return mk1d(kb, X.sub(hit, X.mul(tb, e)), e)
        if recipe in ("cross", "skew", "cross-hit", "cross-end"):
            IN = (F(0), F(1, 4), F(1, 2), F(1))
            ENDS = (F(0), F(1))
            if recipe == "cross-hit":
                ta = draw(st.sampled_from(IN))
                tb = draw(st.sampled_from(IN))
            elif recipe == "cross-end":
                ta = draw(st.sampled_from(ENDS if ka != "L" else IN))
                tb = draw(st.sampled_from(ENDS if kb != "L" else IN))
                if ka != "L" and kb != "L" and draw(st.booleans()):
                    # only one of them at its end
                    if draw(st.booleans()):
                        ta = draw(st.sampled_from(IN))
                    else:
                        tb = draw(st.sampled_from(IN))
            else:
                ta = draw(st.sampled_from(T_TABLE))
                tb = draw(st.sampled_from(T_TABLE))
            e = draw(dir_not_parallel(d))
            hit = X.add(p, X.mul(ta, d))
            sup = X.sub(hit, X.mul(tb, e))
            if recipe == "skew":
                n = X.cross(d, e)
                sup = X.add(sup, X.mul(draw(st.sampled_from((F(1), F(-1), F(1, 2), F(1, 4)))), n))
            return mk1d(kb, sup, e)
    # ---------------- 1-D b against plane a
    if ka == "PL" and kb in ("L", "H", "S"):
        n = a[2]
        q = draw(point_on(a))
        if recipe == "in-plane":
            return mk1d(kb, q, draw(dir_in_plane(n)))
        if recipe == "parallel-off":
            q2 = X.add(q, X.mul(draw(st.sampled_from((F(1), F(-1), F(1, 2), F(-1, 4)))), n))
            return mk1d(kb, q2, draw(dir_in_plane(n)))
        if recipe in ("cross", "cross-end"):
            e = draw(dir_crossing_plane(n))
            t = draw(st.sampled_from(T_TABLE if recipe == "cross" else (F(0), F(1))))
            return mk1d(kb, X.sub(q, X.mul(t, e)), e)
        if recipe == "perpendicular":
            k = draw(st.sampled_from(SCALES))
            e = X.mul(k, n)
            t = draw(st.sampled_from(T_TABLE))
            return mk1d(kb, X.sub(q, X.mul(t, e)), e)
    # ---------------- plane b against 1-D a
    if ka in ("L", "H", "S") and kb == "PL":
        d = carrier_dir(a)
        q = draw(point_on(a))
        if recipe == "contains":
            u, v = X.perp2(d)
            i = draw(st.integers(-2, 2))
            j = draw(st.integers(-2, 2))
            assume(i != 0 or j != 0)
            n = X.add(X.mul(F(i), u), X.mul(F(j), v))
            # any point of the plane as support
            sup = X.add(q, draw(dir_in_plane(n))) if draw(st.booleans()) else q
            return ("PL", sup, n)
        if recipe == "parallel-off":
            u, v = X.perp2(d)
            i = draw(st.integers(-2, 2))
            j = draw(st.integers(-2, 2))
            assume(i != 0 or j != 0)
            n = X.add(X.mul(F(i), u), X.mul(F(j), v))
            return ("PL", X.add(q, X.mul(draw(st.sampled_from((F(1), F(-1), F(1, 2), F(1, 4)))), n)), n)
        if recipe in ("cross", "cross-end"):
            if recipe == "cross-end":
                q = X.add(a[1], X.mul(draw(st.sampled_from((F(0), F(1)) if ka == "S" else (F(0),))), d))
            n = draw(direction())
            assume(X.dot(n, d) != 0)
            sup = X.add(q, draw(dir_in_plane(n))) if draw(st.booleans()) else q
            return ("PL", sup, n)
        if recipe == "perpendicular":
            k = draw(st.sampled_from(SCALES))
            return ("PL", q, X.mul(k, d))
    # ---------------- plane / plane
    if ka == "PL" and kb == "PL":
        n = a[2]
        q = draw(point_on(a))
        k = draw(st.sampled_from(SCALES))
        if recipe == "coincident":
            return ("PL", q, X.mul(k, n))
        if recipe == "parallel-off":
            return ("PL", X.add(q, X.mul(draw(st.sampled_from((F(1), F(-1), F(1, 2), F(1, 4)))), n)), X.mul(k, n))
        if recipe == "crossing":
            return ("PL", q if draw(st.booleans()) else draw(lattice_point(6)), draw(dir_not_parallel(n)))
        if recipe == "perpendicular":
            return ("PL", q, draw(dir_in_plane(n)))
    raise ValueError("no recipe %s for %s/%s" % (recipe, ka, kb))


def flat_recipes(ka, kb):
    one = ("L", "H", "S")
    if kb == "P" and ka == "P":
        return ("on", "off", "free", "hash-quirk")
    if kb == "P":
        return ("on", "off", "free")
    if ka == "P":
        return ("on", "off", "free")
    if ka in one and kb in one:
        r = ["collinear", "parallel-off", "cross", "cross-hit", "cross-end", "cross-shared-projection", "cross-inexact-elimination", "skew", "free"]
        if ka != "L" and kb != "L":
            r.insert(1, "touch")
        return tuple(r)
    if ka == "PL" and kb in one:
        r = ["in-plane", "parallel-off", "cross", "perpendicular", "free"]
        if kb != "L":
            r.append("cross-end")
        return tuple(r)
    if ka in one and kb == "PL":
        r = ["contains", "parallel-off", "cross", "perpendicular", "free"]
        if ka != "L":
            r.append("cross-end")
        return tuple(r)
    return ("coincident", "parallel-off", "crossing", "perpendicular", "free")


def _inexact_table():
    """(x, y, k): quarter-lattice x, y and a factor k with |kx|, |ky| <= 8 such that eliminating y/x against (kx, ky)
    in floating point leaves a rounding residue instead of 0 (the quotient y/x is not a short binary fraction and
    its product with kx rounds away from ky)"""
    out = []
    qs = [F(n, 4) for n in range(-32, 33) if n != 0]
    for x in qs:
        for y in qs:
            if x == 0 or y == 0 or abs(x) == abs(y):
                continue
            for k in (F(3), F(-3), F(2), F(3, 2), F(-5, 2), F(5)):
                if abs(k * x) > 8 or abs(k * y) > 8:
                    continue
                fx, fy, fk = float(x), float(y), float(k)
                # either row may become the pivot row (partial pivoting or not): inexact in at least one orientation
                if (fk * fy) + (fk * fx) * (fy / fx * -1) != 0.0 or (fk * fx) + (fk * fy) * (fx / fy * -1) != 0.0:
                    out.append((x, y, k))
    return out


INEXACT = _inexact_table()


@st.composite
def inexact_shared_projection(draw, ka, kb):
    """two crossing 1-D flats whose directions are proportional in two coordinates with a quotient that float
    elimination cannot cancel exactly (a rounding residue of ~1e-16 is left where the exact value is 0)"""
    x, y, k = draw(st.sampled_from(INEXACT))
    i = draw(st.integers(0, 2))
    j, l = [t for t in range(3) if t != i]
    if draw(st.booleans()):
        j, l = l, j
    z1 = F(draw(st.integers(-8, 8)), 4)
    z2 = F(draw(st.integers(-8, 8)), 4)
    d = [F(0)] * 3
    e = [F(0)] * 3
    d[j], d[l], d[i] = x, y, z1
    e[j], e[l], e[i] = k * x, k * y, z2
    assume(not is_zero_cross(tuple(d), tuple(e)))
    hit = draw(lattice_point(3))
    ta = draw(st.sampled_from((F(0), F(1, 4), F(1, 2), F(1))))
    tb = draw(st.sampled_from((F(0), F(1, 4), F(1, 2), F(1))))
    if draw(st.booleans()):
        d, e = e, d
    a = mk1d(ka, X.sub(hit, X.mul(ta, tuple(d))), tuple(d))
    b = mk1d(kb, X.sub(hit, X.mul(tb, tuple(e))), tuple(e))
    return (a, b)


@st.composite
def flat_pair(draw, ka, kb, recipe):
    if recipe == "cross-inexact-elimination":
        return draw(inexact_shared_projection(ka, kb))
    a = draw(free_flat(ka))
    b = draw(related_flat(a, kb, recipe))
    if recipe == "hash-quirk":
        b, pa = b
        a = ("P", pa)
    return (a, b)


@st.composite
def variant(draw):
    """(ctype_a, form_a, ctype_b, form_b): coordinate type (float / int where integral) and constructor form"""
    return (
        draw(st.sampled_from(("f", "f", "i"))),
        draw(st.integers(0, 11)),
        draw(st.sampled_from(("f", "f", "i"))),
        draw(st.integers(0, 11)),
    )


@st.composite
def with_variant(draw, strategy):
    return tuple(draw(strategy)) + (draw(variant()),)
