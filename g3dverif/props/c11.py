"""C11 - angle, parallel and orthogonal agree with exact direction geometry."""
import math
from fractions import Fraction as F
from hypothesis import strategies as st, assume

from ..common import lib
from ..engine import Fail, Stratum
from .. import exact as X, bridge as B, gen, admit as A

ID = "C11"
WITNESS = ()
RULE = (
    "direction pairs (u, v) on the integer lattice built by relation recipe: parallel(k), antiparallel(k) for "
    "k in {1,2,3,1/2,5}, exactly perpendicular (cross-product construction), near-parallel (long directions a quarter "
    "lattice step apart, within about one degree), generic; wrapped as Line/Line, "
    "Line/Plane, Plane/Line, Plane/Plane, Vector/Vector with generated support points; function form in both "
    "argument orders and the method form on Line/Plane receivers. Oracle: angle = atan2(|u x v|, |u.v|) from the "
    "exact cross and dot products (complemented for line/plane) within 1e-7, range [0, pi/2]; parallel <=> exact "
    "angle 0, orthogonal <=> exact angle pi/2; no exception; symmetry. non-trivial = exactly parallel / "
    "anti-parallel / perpendicular pair or a line-plane combination; distinct = distinct (types, u, v, supports)."
    ' Every Line / Plane operand is built through a drawn constructor form (two points, point+vector, position vector; point+normal, three points, point+two vectors, general form).'
)
ASSUMPTIONS = [
    "angle tolerance 1e-7: acos of a correctly rounded cosine is only accurate to ~2e-8 near 0",
    "non-exact pairs have |sin| and |cos| > 1e-3 (checked in admission)",
]

COMBOS = [("L", "L"), ("L", "PL"), ("PL", "L"), ("PL", "PL"), ("V", "V")]
KS = (F(1), F(2), F(3), F(1, 2), F(5))


@st.composite
def dir_pair(draw, recipe):
    u = draw(gen.direction(4))
    if recipe == "parallel":
        v = X.mul(draw(st.sampled_from(KS)), u)
    elif recipe == "antiparallel":
        v = X.mul(-draw(st.sampled_from(KS)), u)
    elif recipe == "near-parallel":
        # long directions a quarter lattice step apart: within about one degree, yet sin(angle) > 1e-3
        k = draw(st.sampled_from((F(2), F(4), F(8), F(3))))
        base = draw(st.sampled_from(gen.AXIS_DIRS))
        u = X.mul(k, tuple(F(c) for c in base))
        i = draw(st.integers(0, 2))
        dv = [F(0), F(0), F(0)]
        dv[i] = draw(st.sampled_from((F(1, 4), F(-1, 4), F(1, 8), F(-1, 2))))
        v = X.add(X.mul(draw(st.sampled_from((F(1), F(1, 2), F(-1), F(2)))), u), tuple(dv))
        assume(not X.is_zero(X.cross(u, v)))
    elif recipe == "perpendicular":
        w = draw(gen.direction(3))
        v = X.cross(u, w)
        assume(not X.is_zero(v))
        v = X.mul(draw(st.sampled_from((F(1), F(-1), F(1, 2), F(2)))), v)
    else:
        v = draw(gen.direction(4))
    if draw(st.booleans()):
        u, v = v, u
    return u, v


@st.composite
def case_for(draw, ka, kb, recipe):
    u, v = draw(dir_pair(recipe))
    pa = draw(gen.lattice_point(6))
    pb = draw(gen.lattice_point(6))
    mk = lambda k, p, d: ("V", d) if k == "V" else (k, p, d)
    # constructor forms of bridge._build_raw (Line from two points / position vector, Plane from three points /
    # two spanning vectors / general form): the direction the library derives must not depend on the form
    forms = (draw(st.integers(0, 3)), draw(st.integers(0, 3)))
    return (mk(ka, pa, u), mk(kb, pb, v), forms)


def _build(o, form=0):
    if o[0] == "V":
        return B.vec(o[1])
    return B.build(o, form=form)


def _dir(o):
    return o[1] if o[0] == "V" else o[2]


def check(case, ctx):
    G = lib()
    a, b = case[:2]
    fa, fb = case[2] if len(case) > 2 else (0, 0)
    u, v = _dir(a), _dir(b)
    ang = X.acute_angle(u, v)
    exact_par = X.is_zero(X.cross(u, v))
    exact_orth = X.dot(u, v) == 0
    mixed = {a[0], b[0]} == {"L", "PL"}
    if mixed:
        ref = math.pi / 2 - ang
        want_par, want_orth = exact_orth, exact_par
    else:
        ref = ang
        want_par, want_orth = exact_par, exact_orth
    rel = "parallel" if exact_par else "perpendicular" if exact_orth else "generic"
    if exact_par and X.dot(u, v) < 0:
        rel = "antiparallel"
    cls = "%s-%s:%s" % (a[0], b[0], rel)
    ctx.cls(cls)
    if rel != "generic" or mixed:
        ctx.nontrivial(case)
    ctx.sample(cls, case, ref)
    oa, ob = _build(a, fa), _build(b, fb)
    facts = {"pair": "%s-%s" % (a[0], b[0]), "relation": rel}
    forms = [("(a,b)", lambda f: f(oa, ob)), ("(b,a)", lambda f: f(ob, oa))]
    res = {}
    for fname in ("angle", "parallel", "orthogonal"):
        f = getattr(G, fname)
        cl = [("%s(a,b)" % fname, f, (oa, ob)), ("%s(b,a)" % fname, f, (ob, oa))]
        if a[0] in ("L", "PL"):
            cl.append(("a.%s(b)" % fname, getattr(oa, fname), (ob,)))
            cl.append(("b.%s(a)" % fname, getattr(ob, fname), (oa,)))
        for name, fn, args in cl:
            s, val = B.call(fn, *args)
            if s == "raise":
                raise Fail("%s [%s,%s] raises %s" % (name, a[0], b[0], B.exc_sig(val)), {"error": repr(val)}, facts)
            if fname == "angle":
                if isinstance(val, bool) or not isinstance(val, (int, float)) or not math.isfinite(val):
                    raise Fail("%s [%s,%s] returns a non-number" % (name, a[0], b[0]), {"got": repr(val)}, facts)
                if val < -1e-12 or val > math.pi / 2 + 1e-12:
                    raise Fail("%s [%s,%s] outside [0, pi/2]" % (name, a[0], b[0]), {"got": val, "expected": ref}, facts)
                if abs(val - ref) > 1e-7:
                    raise Fail("%s [%s,%s] wrong value" % (name, a[0], b[0]), {"got": val, "expected": ref}, facts)
            else:
                want = want_par if fname == "parallel" else want_orth
                if bool(val) != want:
                    raise Fail(
                        "%s [%s,%s] is %s, exact geometry says %s" % (name, a[0], b[0], bool(val), want),
                        {"u": u, "v": v},
                        facts,
                    )


def admit(case, fail):
    a, b = case[:2]
    m = A.Margin()
    u, v = _dir(a), _dir(b)
    m.see(A._sin(u, v), "direction sine")
    m.see(A._cos(u, v), "direction cosine")
    return m.reason()


def strata(tier):
    per = 200 if tier == "quick" else 6000
    out = []
    for ka, kb in COMBOS:
        for rec in ("parallel", "antiparallel", "perpendicular", "near-parallel", "generic"):
            out.append(Stratum("%s-%s/%s" % (ka, kb, rec), "hyp", case_for(ka, kb, rec), per))
    return out
