"""C14 - shape builders produce the specified inscribed shapes for every pose."""
import copy
import math
from fractions import Fraction as F
from hypothesis import strategies as st, assume

from ..common import lib
from ..engine import Fail, Stratum
from .. import exact as X, bridge as B, gen

ID = "C14"
RULE = (
    "Circle, Cylinder, Cone over lattice centres, radii drawn from floats in (0.25, 8), resolutions n in 3..24 and "
    "axis directions stratified into: the 26 lattice directions x lengths {1/2,1,2,3}, random float directions, "
    "near-axis directions (one component +-1, the others within +-0.12, i.e. on both sides of the library's 0.1 rad "
    "switch) for each of the six axis ends; everyday parameters (radius on a 1/8 grid, round n); radii adjusted by "
    "< 1e-9 so that one vertex coordinate lies within an ulp of a rounding boundary of the 10-digit Point hash; an "
    "axis Vector object reused after an earlier build and an in-place edit; Sphere over n1 in 3..12, n2 in 2..5; Parallelogram/Parallelepiped over "
    "independent lattice edge vectors, a quarter of them with two long edges a few degrees apart (components <= 8); the same round builder called at two centres -1 / -2 apart (colliding Point hashes) within one case. Oracle (closed forms in floating point, relative 1e-9): vertex/edge/face "
    "counts, every vertex at distance r from the axis/centre and in the right plane (1e-9 absolute x scale), equal "
    "angular steps 2pi/n around the centre, Sphere rings at latitudes i*pi/(2 n2), apex / top circle at centre + "
    "height vector, areas and volumes of the inscribed n-gon shapes, arguments unchanged by the call. "
    "non-trivial = axis not the +x/+y/+z unit vector; distinct = distinct parameter tuple."
)
ASSUMPTIONS = [
    "closed-form references evaluated in double precision; tolerance 1e-9 relative (1e-9 absolute on unit-scale coordinates)",
]

REL = 1e-9


def near(a, b, scale=1.0):
    return abs(a - b) <= REL * max(abs(b), scale)


def fvec3(v):
    return (float(v[0]), float(v[1]), float(v[2]))


def ngon_area(n, r):
    return n / 2.0 * r * r * math.sin(2 * math.pi / n)


def ngon_side(n, r):
    return 2.0 * r * math.sin(math.pi / n)


def snapshot_args(args):
    out = []
    for a in args:
        if hasattr(a, "x"):
            out.append(("P", a.x, a.y, a.z))
        elif hasattr(a, "_v"):
            out.append(("V",) + tuple(a._v))
        else:
            out.append(a)
    return out


def ring_check(pts, c, axis, r, n, plane_offset, what, facts):
    """pts: n float points expected on the circle of radius r around c + plane_offset*axis_unit"""
    al = B._fnorm(axis)
    u = (axis[0] / al, axis[1] / al, axis[2] / al)
    cc = (c[0] + plane_offset * u[0], c[1] + plane_offset * u[1], c[2] + plane_offset * u[2])
    scale = max(1.0, r, abs(cc[0]), abs(cc[1]), abs(cc[2]))
    if len(pts) != n:
        raise Fail("%s: %d vertices on a ring, expected %d" % (what, len(pts), n), {}, facts)
    for p in pts:
        w = (p[0] - cc[0], p[1] - cc[1], p[2] - cc[2])
        if abs(B._fdot(w, u)) > 1e-9 * scale:
            raise Fail("%s: a vertex is off the circle's plane" % what, {"vertex": p, "off": B._fdot(w, u)}, facts)
        if abs(B._fnorm(w) - r) > 1e-9 * scale:
            raise Fail("%s: a vertex is not at distance r from the axis" % what, {"vertex": p, "dist": B._fnorm(w), "r": r}, facts)
    # equal angular steps: sort by angle around the axis
    e1 = (pts[0][0] - cc[0], pts[0][1] - cc[1], pts[0][2] - cc[2])
    e2 = B._fcross(u, e1)
    angs = sorted(math.atan2(B._fdot((p[0] - cc[0], p[1] - cc[1], p[2] - cc[2]), e2), B._fdot((p[0] - cc[0], p[1] - cc[1], p[2] - cc[2]), e1)) % (2 * math.pi) for p in pts)
    step = 2 * math.pi / n
    seen = set()
    for a in angs:
        k = int(round(a / step))
        if abs(a - k * step) > 1e-8:
            raise Fail("%s: vertices are not at equal angular steps" % what, {"angles": angs[:6], "step": step}, facts)
        seen.add(k % n)
    if len(seen) != n:
        raise Fail("%s: vertices do not occupy all n angular positions" % what, {"angles": angs[:6], "step": step}, facts)


def boundary_radius(G, c, axis_f, r0, n, spec):
    """a radius within 1e-9 of r0 for which one coordinate of one vertex of the (top or bottom) circle sits within
    an ulp of a decimal rounding boundary of the 10-digit Point hash.  Any radius is a valid input; this one makes
    the vertex bookkeeping depend on every computation of that vertex giving the same float."""
    vi, ci, top = spec
    cf = [float(x) for x in c]
    if top:
        cf = [cf[i] + axis_f[i] for i in range(3)]

    def coord(r):
        pts = G.get_circle_point_list(G.Point(*cf), G.Vector(*axis_f), r, n)
        p = pts[vi % n]
        return (p.x, p.y, p.z)[ci % 3]

    try:
        x0 = coord(r0)
        coef = (x0 - cf[ci % 3]) / r0
        if abs(coef) < 0.05:
            return r0
        target = (math.floor(x0 * 1e10) + 0.5) * 1e-10
        r1 = r0 + (target - x0) / coef
        # polish: step r by ulps until the coordinate is as close to the boundary as floats allow
        best, best_d = r1, abs(coord(r1) - target)
        for _ in range(40):
            x = coord(best)
            if x == target:
                break
            cand = math.nextafter(best, math.inf if (target - x) / coef > 0 else -math.inf)
            d = abs(coord(cand) - target)
            if d > best_d:
                break
            best, best_d = cand, d
        return best if 0.25 < best < 8 else r0
    except Exception:
        return r0


def check(case, ctx):
    G = lib()
    kind = case[0]
    if kind == "PAIR":
        # the same builder call at two centres, one after the other in one process (whatever the first call left
        # behind must not leak into the second); the centres differ by -1 / -2 in one coordinate, whose Point hashes
        # collide in CPython
        for sub in case[1:]:
            check(sub, ctx)
        return
    facts = {"builder": kind}

    def guard(name, fn):
        s, v = B.call(fn)
        if s == "raise":
            raise Fail("%s raises %s" % (name, B.exc_sig(v)), {"error": repr(v)}, facts)
        return v

    if kind in ("Circle", "Cylinder", "Cone"):
        _k, c, axis, r, n, tag = case[:6]
        pre_axis = case[6] if len(case) > 6 else None
        r = float(r)
        axis_f = fvec3(axis)
        if len(case) > 7 and case[7] is not None:
            r = boundary_radius(G, c, axis_f, r, n, case[7])
            ctx.cls("radius-on-hash-rounding-boundary")
        cls = "%s/%s" % (kind, tag)
        ctx.cls(cls)
        if tuple(axis_f) not in ((1.0, 0.0, 0.0), (0.0, 1.0, 0.0), (0.0, 0.0, 1.0)):
            ctx.nontrivial(case)
        ctx.sample(cls, case)
        facts["axis"] = axis_f
        facts["n"] = n
        cP = B.pt(c)
        if pre_axis is not None:
            # the same Vector object was used for an earlier build with another axis and then edited in place
            # (documented coordinate setting): the result must depend on its current value only
            aV = G.Vector(*fvec3(pre_axis))
            B.call(lambda: G.Circle(B.pt(c), aV, r, n) if kind == "Circle" else (G.Cylinder(B.pt(c), r, aV, n) if kind == "Cylinder" else G.Cone(B.pt(c), r, aV, n)))
            aV[0], aV[1], aV[2] = axis_f
            ctx.cls("reused-axis-vector")
        else:
            aV = G.Vector(*axis_f)
        before = snapshot_args([cP, aV])
        cf = X.fl(c)
        H = B._fnorm(axis_f)
        if kind == "Circle":
            o = guard("Circle", lambda: G.Circle(cP, aV, r, n))
        elif kind == "Cylinder":
            o = guard("Cylinder", lambda: G.Cylinder(cP, r, aV, n))
        else:
            o = guard("Cone", lambda: G.Cone(cP, r, aV, n))
        if snapshot_args([cP, aV]) != before:
            raise Fail("%s modifies its arguments" % kind, {"before": repr(before), "after": repr(snapshot_args([cP, aV]))}, facts)
        A = ngon_area(n, r)
        if kind == "Circle":
            if not isinstance(o, G.ConvexPolygon):
                raise Fail("Circle does not return a ConvexPolygon", {}, facts)
            pts = [B._xyz(p) for p in o.points]
            ring_check(pts, cf, axis_f, r, n, 0.0, "Circle", facts)
            if not near(guard("area", o.area), A) or not near(guard("length", o.length), n * ngon_side(n, r)):
                raise Fail("Circle area/perimeter differ from the inscribed n-gon's", {"area": o.area(), "expected": A}, facts)
            return
        if not isinstance(o, G.ConvexPolyhedron):
            raise Fail("%s does not return a ConvexPolyhedron" % kind, {}, facts)
        V, E, Fc = len(o.point_set), len(o.segment_set), len(o.convex_polygons)
        want = (2 * n, 3 * n, n + 2) if kind == "Cylinder" else (n + 1, 2 * n, n + 1)
        if (V, E, Fc) != want:
            raise Fail("%s has (V,E,F)=%s, expected %s" % (kind, (V, E, Fc), want), {}, facts)
        al = H
        u = (axis_f[0] / al, axis_f[1] / al, axis_f[2] / al)
        pts = [B._xyz(p) for p in o.point_set]
        hs = [B._fdot((p[0] - cf[0], p[1] - cf[1], p[2] - cf[2]), u) for p in pts]
        bottom = [p for p, h in zip(pts, hs) if abs(h) <= 1e-7 * max(1.0, H)]
        top = [p for p, h in zip(pts, hs) if abs(h - H) <= 1e-7 * max(1.0, H)]
        ring_check(bottom, cf, axis_f, r, n, 0.0, kind + " bottom circle", facts)
        if kind == "Cylinder":
            ring_check(top, cf, axis_f, r, n, H, "Cylinder top circle", facts)
            vol = A * H
            area = 2 * A + n * ngon_side(n, r) * H
        else:
            apex = (cf[0] + axis_f[0], cf[1] + axis_f[1], cf[2] + axis_f[2])
            if len(top) != 1 or not B._close(top[0], apex, 1e-9 * max(1.0, H, abs(apex[0]), abs(apex[1]), abs(apex[2]))):
                raise Fail("Cone apex is not at centre + height vector", {"top": top, "expected": apex}, facts)
            vol = A * H / 3
            apo = r * math.cos(math.pi / n)
            area = A + n * ngon_side(n, r) * math.sqrt(H * H + apo * apo) / 2
        gv = guard("volume", o.volume)
        ga = guard("area", o.area)
        if not near(gv, vol):
            raise Fail("%s volume differs from the closed form" % kind, {"got": gv, "expected": vol}, facts)
        if not near(ga, area):
            raise Fail("%s area differs from the closed form" % kind, {"got": ga, "expected": area}, facts)
        if not near(guard("volume()", lambda: G.volume(o)), vol):
            raise Fail("volume(%s) differs from the closed form" % kind, {}, facts)
        return
    if kind == "Sphere":
        _k, c, r, n1, n2 = case
        r = float(r)
        cls = "Sphere/n1=%d/n2=%d" % (min(n1, 6), n2)
        ctx.cls(cls)
        ctx.nontrivial(case)
        ctx.sample(cls, case)
        cP = B.pt(c)
        before = snapshot_args([cP])
        o = guard("Sphere", lambda: G.Sphere(cP, r, n1, n2))
        if not isinstance(o, G.ConvexPolyhedron):
            raise Fail("Sphere does not return a ConvexPolyhedron", {"got": type(o).__name__}, facts)
        if snapshot_args([cP]) != before:
            raise Fail("Sphere modifies its centre argument", {}, facts)
        cf = X.fl(c)
        V, E, Fc = len(o.point_set), len(o.segment_set), len(o.convex_polygons)
        wantV = n1 * (2 * n2 - 1) + 2
        wantF = 2 * n1 * n2
        if (V, Fc) != (wantV, wantF) or V - E + Fc != 2:
            raise Fail("Sphere has (V,E,F)=%s, expected V=%d F=%d" % ((V, E, Fc), wantV, wantF), {}, facts)
        pts = [B._xyz(p) for p in o.point_set]
        scale = max(1.0, r, abs(cf[0]), abs(cf[1]), abs(cf[2]))
        for p in pts:
            if abs(B._fnorm((p[0] - cf[0], p[1] - cf[1], p[2] - cf[2])) - r) > 1e-9 * scale:
                raise Fail("Sphere: a vertex is not at distance r from the centre", {"vertex": p}, facts)
        # rings
        vol = 0.0
        area = 0.0
        lat = [i * math.pi / (2 * n2) for i in range(0, n2)]
        for i in range(-(n2 - 1), n2):
            a = abs(i) * math.pi / (2 * n2)
            h = math.copysign(r * math.sin(a), i) if i else 0.0
            ring = [p for p in pts if abs((p[2] - cf[2]) - h) <= 1e-7 * scale and abs(B._fnorm((p[0] - cf[0], p[1] - cf[1], p[2] - cf[2])) - r) < 1e-6 * scale and abs(abs(p[2] - cf[2]) - r) > 1e-7 * scale]
            ring_check(ring, cf, (0.0, 0.0, 1.0), r * math.cos(a), n1, h, "Sphere ring %d" % i, facts)
        for sgn in (1, -1):
            pole = (cf[0], cf[1], cf[2] + sgn * r)
            if not any(B._close(p, pole, 1e-9 * scale) for p in pts):
                raise Fail("Sphere: missing pole", {"pole": pole}, facts)
        # one hemisphere: frusta between consecutive rings, then the polar pyramid
        for j in range(n2):
            a1 = j * math.pi / (2 * n2)
            a2 = (j + 1) * math.pi / (2 * n2)
            r1, r2 = r * math.cos(a1), r * math.cos(a2)
            if j == n2 - 1:
                r2 = 0.0
            d = r * math.sin(a2) - r * math.sin(a1)
            A1, A2 = ngon_area(n1, r1), ngon_area(n1, r2)
            vol += d / 3 * (A1 + A2 + math.sqrt(A1 * A2))
            ap1, ap2 = r1 * math.cos(math.pi / n1), r2 * math.cos(math.pi / n1)
            slant = math.sqrt(d * d + (ap1 - ap2) ** 2)
            area += n1 * (ngon_side(n1, r1) + ngon_side(n1, r2)) / 2 * slant
        vol *= 2
        area *= 2
        gv, ga = guard("volume", o.volume), guard("area", o.area)
        if not near(gv, vol):
            raise Fail("Sphere volume differs from the closed form", {"got": gv, "expected": vol}, facts)
        if not near(ga, area):
            raise Fail("Sphere area differs from the closed form", {"got": ga, "expected": area}, facts)
        return
    if kind == "Parallelogram":
        _k, p, v1, v2 = case
        cls = "Parallelogram"
        ctx.cls(cls)
        ctx.nontrivial(case)
        ctx.sample(cls, case)
        P, V1, V2 = B.pt(p), B.vec(v1), B.vec(v2)
        before = snapshot_args([P, V1, V2])
        o = guard("Parallelogram", lambda: G.Parallelogram(P, V1, V2))
        if not isinstance(o, G.ConvexPolygon):
            raise Fail("Parallelogram does not return a ConvexPolygon", {"got": type(o).__name__}, facts)
        if snapshot_args([P, V1, V2]) != before:
            raise Fail("Parallelogram modifies its arguments", {}, facts)
        exp = ("G", [X.fl(p), X.fl(X.add(p, v1)), X.fl(X.add(X.add(p, v1), v2)), X.fl(X.add(p, v2))])
        why = B.same_set(exp, B.denote(o), 1e-9)
        if why:
            raise Fail("Parallelogram vertices wrong: %s" % why, {"got": B.denote(o)}, facts)
        cr = X.cross(v1, v2)
        ref = math.sqrt(float(X.dot(cr, cr)))
        if not near(guard("area", o.area), ref):
            raise Fail("Parallelogram area != |v1 x v2|", {"got": o.area(), "expected": ref}, facts)
        return
    if kind == "Parallelepiped":
        _k, p, v1, v2, v3 = case
        ctx.cls("Parallelepiped")
        ctx.nontrivial(case)
        ctx.sample("Parallelepiped", case)
        P, V1, V2, V3 = B.pt(p), B.vec(v1), B.vec(v2), B.vec(v3)
        before = snapshot_args([P, V1, V2, V3])
        o = guard("Parallelepiped", lambda: G.Parallelepiped(P, V1, V2, V3))
        if not isinstance(o, G.ConvexPolyhedron):
            raise Fail("Parallelepiped does not return a ConvexPolyhedron", {"got": type(o).__name__}, facts)
        if snapshot_args([P, V1, V2, V3]) != before:
            raise Fail("Parallelepiped modifies its arguments", {}, facts)
        V, E, Fc = len(o.point_set), len(o.segment_set), len(o.convex_polygons)
        if (V, E, Fc) != (8, 12, 6):
            raise Fail("Parallelepiped has (V,E,F)=%s" % ((V, E, Fc),), {}, facts)
        exp = [X.fl(X.add(p, X.add(X.mul(a, v1), X.add(X.mul(b, v2), X.mul(c_, v3))))) for a in (0, 1) for b in (0, 1) for c_ in (0, 1)]
        if not B._match_sets([B._xyz(q) for q in o.point_set], exp, 1e-9):
            raise Fail("Parallelepiped vertices wrong", {}, facts)
        vol = abs(float(X.det3(v1, v2, v3)))
        ar = 0.0
        for a, b in ((v1, v2), (v2, v3), (v1, v3)):
            cr = X.cross(a, b)
            ar += 2 * math.sqrt(float(X.dot(cr, cr)))
        if not near(guard("volume", o.volume), vol):
            raise Fail("Parallelepiped volume != |det|", {"got": o.volume(), "expected": vol}, facts)
        if not near(guard("area", o.area), ar):
            raise Fail("Parallelepiped area wrong", {"got": o.area(), "expected": ar}, facts)
        return
    raise ValueError(kind)


# ---------------------------------------------------------------- strategies
radii = st.floats(0.25, 8.0, allow_nan=False, allow_infinity=False, exclude_min=True, exclude_max=True)


@st.composite
def axis_dir(draw, mode):
    if mode == "lattice":
        d = draw(st.sampled_from(gen.AXIS_DIRS))
        k = draw(st.sampled_from((0.5, 1.0, 2.0, 3.0)))
        return (d[0] * k, d[1] * k, d[2] * k), "lattice-dir"
    if mode == "random":
        v = (draw(st.floats(-1, 1)), draw(st.floats(-1, 1)), draw(st.floats(-1, 1)))
        assume(math.sqrt(sum(c * c for c in v)) > 0.1)
        k = draw(st.sampled_from((0.5, 1.0, 3.0)))
        return (v[0] * k, v[1] * k, v[2] * k), "random-dir"
    # near an axis end
    i = draw(st.integers(0, 2))
    s = draw(st.sampled_from((1.0, -1.0)))
    e = [draw(st.floats(-0.12, 0.12)), draw(st.floats(-0.12, 0.12)), draw(st.floats(-0.12, 0.12))]
    e[i] = s
    k = draw(st.sampled_from((1.0, 2.0, 0.5)))
    return (e[0] * k, e[1] * k, e[2] * k), "near-%s%s" % ("+" if s > 0 else "-", "xyz"[i])


@st.composite
def round_case(draw, kind, mode):
    c = draw(gen.lattice_point(6))
    axis, tag = draw(axis_dir(mode))
    r = draw(radii)
    n = draw(st.integers(3, 24))
    if mode == "lattice" and draw(st.integers(0, 2)) == 0:
        # everyday parameters: radius on a 1/8 grid, n a "round" resolution
        r = draw(st.integers(2, 60)) / 8.0
        n = draw(st.sampled_from((4, 6, 8, 10, 12, 16, 20, 24)))
    if draw(st.integers(0, 3)) == 0:
        pre, _t = draw(axis_dir(draw(st.sampled_from(("lattice", "random")))))
        return (kind, c, axis, r, n, tag, pre)
    return (kind, c, axis, r, n, tag)


@st.composite
def boundary_case(draw, kind):
    c = draw(gen.lattice_point(6))
    axis, tag = draw(axis_dir(draw(st.sampled_from(("lattice", "lattice", "random")))))
    r = draw(st.integers(3, 60)) / 8.0
    n = draw(st.sampled_from((3, 4, 5, 6, 8, 12, 16, 24)))
    spec = (draw(st.integers(0, 23)), draw(st.integers(0, 2)), draw(st.booleans()))
    return (kind, c, axis, r, n, "boundary-radius", None, spec)


@st.composite
def sphere_case(draw):
    return ("Sphere", draw(gen.lattice_point(6)), draw(radii), draw(st.integers(3, 12)), draw(st.integers(2, 5)))


@st.composite
def pgram_case(draw):
    p = draw(gen.lattice_point(6))
    v1, v2 = draw(gen.direction(4)), draw(gen.direction(4))
    if draw(st.integers(0, 3)) == 0:
        v2 = _near_parallel(draw, v1)
        if draw(st.booleans()):
            v1, v2 = v2, v1
    assume(not X.is_zero(X.cross(v1, v2)))
    return ("Parallelogram", p, v1, v2)


def _near_parallel(draw, v1):
    """a long vector a few degrees off k * v1 (still far outside any tolerance): k * v1 scaled up plus a short offset"""
    k = draw(st.sampled_from((1, 1, 2, 3)))
    w = tuple(F(c, 4) for c in draw(gen.direction(2)))
    assume(not X.is_zero(X.cross(v1, w)))
    v2 = X.add(X.mul(k * draw(st.sampled_from((1, 2, 3))), v1), w)
    # inside the lattice range of the edge vectors (|c| <= 8): the two edges then enclose at least 0.25 / 14 rad
    assume(max(abs(c) for c in v2) <= 8 and max(abs(c) for c in v1) <= 8)
    return v2


@st.composite
def ppd_case(draw):
    p = draw(gen.lattice_point(6))
    v1, v2, v3 = draw(gen.direction(3)), draw(gen.direction(3)), draw(gen.direction(3))
    if draw(st.integers(0, 3)) == 0:
        # needle-like bodies: two long edges enclosing a few degrees
        v1 = X.mul(draw(st.sampled_from((2, 3))), v1)
        v2 = _near_parallel(draw, v1)
        if draw(st.booleans()):
            v1, v2, v3 = draw(st.permutations([v1, v2, v3]))
    assume(X.det3(v1, v2, v3) != 0)
    assume(max(abs(c) for v in (v1, v2, v3) for c in v) <= 8)
    return ("Parallelepiped", p, v1, v2, v3)


@st.composite
def quirk_pair_case(draw, kind):
    i = draw(st.integers(0, 2))
    a, b = draw(st.sampled_from((0, 1))), draw(st.sampled_from((0, 1)))
    lo, hi = draw(st.sampled_from(((-1, -2), (-2, -1))))
    q1, q2 = [F(a), F(b)], [F(a), F(b)]
    q1.insert(i, F(lo))
    q2.insert(i, F(hi))
    axis, tag = draw(axis_dir(draw(st.sampled_from(("lattice", "lattice", "random")))))
    r = draw(st.integers(2, 40)) / 8.0
    n = draw(st.sampled_from((3, 4, 5, 6, 8, 12)))
    if draw(st.booleans()):
        # ... or at one centre with two axes whose Vector hashes collide (not parallel: a or b is non-zero)
        assume(a or b)
        c = draw(gen.lattice_point(4))
        k = draw(st.sampled_from((F(1), F(1), F(2))))
        return ("PAIR", (kind, c, tuple(k * x for x in q1), r, n, "colliding-axes"), (kind, c, tuple(k * x for x in q2), r, n, "colliding-axes"))
    return ("PAIR", (kind, tuple(q1), axis, r, n, "colliding-centres"), (kind, tuple(q2), axis, r, n, "colliding-centres"))


def strata(tier):
    q = tier == "quick"
    out = []
    for kind, n in (("Circle", 160), ("Cylinder", 60), ("Cone", 80)):
        for mode in ("lattice", "random", "near-axis"):
            out.append(Stratum("%s/%s" % (kind, mode), "hyp", round_case(kind, mode), n if q else n * 30))
    for kind in ("Circle", "Cylinder", "Cone"):
        out.append(Stratum("%s/boundary-radius" % kind, "hyp", boundary_case(kind), 60 if q else 2000))
    for kind in ("Circle", "Cylinder", "Cone"):
        out.append(Stratum("%s/colliding-centres" % kind, "hyp", quirk_pair_case(kind), 36 if q else 800))
    out.append(Stratum("Sphere", "hyp", sphere_case(), 48 if q else 1500))
    out.append(Stratum("Parallelogram", "hyp", pgram_case(), 200 if q else 6000))
    out.append(Stratum("Parallelepiped", "hyp", ppd_case(), 150 if q else 5000))
    return out
