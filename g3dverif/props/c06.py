"""C06 - length, area and volume equal the exact measures."""
import math
import itertools
from fractions import Fraction as F
from hypothesis import strategies as st

from ..common import lib
from ..engine import Fail, Stratum
from .. import exact as X, bridge as B, genbody as GB, permcase as PC

ID = "C06"
RULE = (
    "convex polygons with 3-8 lattice vertices and closed convex polyhedra (tetrahedra, boxes, parallelepipeds, "
    "prisms, pyramids, bipyramids, general hulls; 4-10 vertices) in arbitrary lattice pose, handed to the "
    "constructors in a generated representation: arbitrary vertex order with repeats (for polygons with <= 5 "
    "vertices ALL permutations are tried inside each case), arbitrary face order, arbitrary vertex order inside "
    "each face, arbitrary face negations; Pyramid over a polygon with an apex on either side, measured again after "
    "its apex was moved in place; needle-shaped triangles and kites (base across the coordinate range, quarter-lattice height); Segment.length on every edge, again after an end point was replaced by item assignment and after a move, and summed over the edges handed out by segments(). Oracle: exact "
    "perimeter (sum of sqrt of rationals), area |sum p_i x p_{i+1}|/2, volume sum|det|/6, height |n.(a-p)|/|n|; "
    "relative tolerance 1e-9; volume(x) vs x.volume() 1e-9. non-trivial = oblique pose (normal with >= 2 "
    "non-zero components, any face for polyhedra) or permuted order; distinct = distinct (shape, representation)."
)
ASSUMPTIONS = [
    "float coordinates; square roots of exact rationals evaluated in double precision (error ~1e-16 relative)",
]

REL = 1e-9


def near(got, ref):
    return abs(float(got) - ref) <= REL * max(abs(ref), 1e-12)


def oblique(n):
    return sum(1 for c in n if c != 0) >= 2


def _num(name, v, facts):
    if isinstance(v, bool) or not isinstance(v, (int, float)) or not math.isfinite(v):
        raise Fail("%s is not a finite number" % name, {"got": repr(v)}, facts)
    return v


def check(case, ctx):
    G = lib()
    k = case[0]
    facts = {"kind": k}

    def step(name, fn, *a):
        s, v = B.call(fn, *a)
        if s == "raise":
            raise Fail("%s raises %s" % (name, B.exc_sig(v)), {"error": repr(v)}, facts)
        return v

    if k == "G":
        pts = case[1]
        m = len(pts)
        n = X.poly_normal(pts)
        cls = "polygon/%d%s" % (m, "/oblique" if oblique(n) else "/axis")
        ctx.cls(cls)
        if oblique(n) or PC.is_permuted(case):
            ctx.nontrivial(case)
        ctx.sample(cls, case)
        ref_len = X.perimeter(("G", pts))
        ref_area = X.polygon_area(pts)
        orders = [case[2]]
        if m <= 5:
            orders += list(itertools.permutations(range(m)))
            ctx.note("all-permutations-polygons")
        for od in orders:
            o = step("ConvexPolygon(permuted vertices)", PC.build_polygon, pts, od)
            L = _num("polygon.length()", step("polygon.length()", o.length), facts)
            Ar = _num("polygon.area()", step("polygon.area()", o.area), facts)
            if not near(L, ref_len):
                raise Fail("polygon.length() wrong", {"got": L, "expected": ref_len, "order": od}, facts)
            if not near(Ar, ref_area):
                raise Fail("polygon.area() wrong", {"got": Ar, "expected": ref_area, "order": od}, facts)
            if od is case[2]:
                neg = step("-polygon", lambda: -o)
                if not near(step("(-polygon).area()", neg.area), ref_area) or not near(step("(-polygon).length()", neg.length), ref_len):
                    raise Fail("measures of -polygon wrong", {"order": od}, facts)
        # Segment.length on every edge
        for p, q in X.edges_of(("G", pts)):
            for form, s in (("Segment(Point, Point)", G.Segment(B.pt(p), B.pt(q))), ("Segment(Point, Vector)", G.Segment(B.pt(p), B.vec(X.sub(q, p))))):
                if not near(step("Segment.length()", s.length), X.seg_len(p, q)):
                    raise Fail("Segment.length() wrong [%s]" % form, {"p": p, "q": q}, facts)
        # a Segment measured, given another end point through item assignment, measured again; and the edges
        # handed out by segments()
        es = X.edges_of(("G", pts))
        for (p, q), (p2, q2) in zip(es, es[1:] + es[:1]):
            s = G.Segment(B.pt(p), B.pt(q))
            step("Segment.length()", s.length)
            if tuple(q2) != tuple(p):
                step("segment[1] = point", lambda: s.__setitem__(1, B.pt(q2)))
                if not near(step("Segment.length()", s.length), X.seg_len(p, q2)):
                    raise Fail("Segment.length() wrong after an end point was replaced by item assignment", {"p": p, "q": q2}, facts)
            s.move(B.vec((1, -2, F(1, 2))))
            if tuple(q2) != tuple(p) and not near(step("Segment.length()", s.length), X.seg_len(p, q2)):
                raise Fail("Segment.length() changed by move", {"p": p, "q": q2}, facts)
        o = step("ConvexPolygon", PC.build_polygon, pts, case[2])
        tot = 0.0
        for sg in o.segments():
            tot += step("Segment.length()", sg.length)
        if not near(tot, ref_len):
            raise Fail("lengths of the edges handed out by segments() do not add up to the perimeter", {"got": tot, "expected": ref_len}, facts)
        return
    if k == "K":
        K = case[1]
        V, E, Fc = X.euler(K)
        obl = any(oblique(f[0]) for f in K[2])
        cls = "polyhedron/V%d/F%d%s" % (V, Fc, "/oblique" if obl else "/axis")
        ctx.cls(cls)
        ctx.nontrivial(case)
        ctx.sample(cls, case)
        o = step("ConvexPolyhedron(permuted faces)", PC.build_case, case)
        ref_len = X.perimeter(K)
        ref_area = X.surface_area(K)
        ref_vol = float(X.volume(K))
        L = _num("polyhedron.length()", step("polyhedron.length()", o.length), facts)
        Ar = _num("polyhedron.area()", step("polyhedron.area()", o.area), facts)
        Vm = _num("polyhedron.volume()", step("polyhedron.volume()", o.volume), facts)
        Vf = _num("volume(polyhedron)", step("volume(polyhedron)", G.volume, o), facts)
        if not near(L, ref_len):
            raise Fail("polyhedron.length() wrong", {"got": L, "expected": ref_len}, facts)
        if not near(Ar, ref_area):
            raise Fail("polyhedron.area() wrong", {"got": Ar, "expected": ref_area}, facts)
        if not near(Vm, ref_vol):
            raise Fail("polyhedron.volume() wrong", {"got": Vm, "expected": ref_vol}, facts)
        if not near(Vf, ref_vol):
            raise Fail("volume(polyhedron) wrong", {"got": Vf, "expected": ref_vol}, facts)
        if abs(Vf - Vm) > REL * ref_vol:
            raise Fail("volume(x) != x.volume()", {"function": Vf, "method": Vm}, facts)
        return
    if k == "PYR":
        pts, od, apex = case[1], case[2], case[3]
        n = X.poly_normal(pts)
        side = X.dot(n, X.sub(apex, pts[0])) > 0
        cls = "pyramid/%d/%s" % (len(pts), "apex+n" if side else "apex-n")
        ctx.cls(cls)
        ctx.nontrivial(case)
        ctx.sample(cls, case)
        ref_h = abs(float(X.dot(n, X.sub(apex, pts[0])))) / math.sqrt(float(X.dot(n, n)))
        ref_v = X.polygon_area(pts) * ref_h / 3
        variants = [("Pyramid", step("Pyramid(base, apex)", PC.build_case, case))]
        base = step("ConvexPolygon", PC.build_polygon, pts, od)
        variants.append(("Pyramid(-base)", step("Pyramid(-base, apex)", lambda: G.Pyramid(-base, B.pt(apex), direct_call=False))))
        for name, o in variants:
            h = _num(name + ".height()", step(name + ".height()", o.height), facts)
            vm = _num(name + ".volume()", step(name + ".volume()", o.volume), facts)
            vf = _num("volume(%s)" % name, step("volume(%s)" % name, G.volume, o), facts)
            if not near(h, ref_h):
                raise Fail("Pyramid.height() wrong", {"got": h, "expected": ref_h, "variant": name}, facts)
            if not near(vm, ref_v):
                raise Fail("Pyramid.volume() wrong", {"got": vm, "expected": ref_v, "variant": name}, facts)
            if not near(vf, ref_v):
                raise Fail("volume(Pyramid) wrong", {"got": vf, "expected": ref_v, "variant": name}, facts)
        # the same Pyramid object after its apex was moved in place: every measure is that of the new pyramid
        name, o = variants[0]
        shift = X.mul(F(1, 2), X.sub(apex, pts[0])) if X.dot(n, X.sub(apex, pts[0])) != 0 else n
        step("apex.move", lambda: o.point.move(B.vec(shift)))
        apex2 = X.add(apex, shift)
        ref_h2 = abs(float(X.dot(n, X.sub(apex2, pts[0])))) / math.sqrt(float(X.dot(n, n)))
        ref_v2 = X.polygon_area(pts) * ref_h2 / 3
        if not near(step("height", o.height), ref_h2) or not near(step("volume", o.volume), ref_v2) or not near(step("volume()", G.volume, o), ref_v2):
            raise Fail("Pyramid measures wrong after its apex was moved in place", {"expected_volume": ref_v2, "method": o.volume(), "function": G.volume(o)}, facts)
        return
    raise ValueError(k)


def strata(tier):
    q = tier == "quick"
    fams = ["tetra", "box", "para", "prism", "pyramid", "bipyramid", "hull", "quirk"]
    out = [
        Stratum("polygon/3-5", "hyp", PC.polygon_case(3, 5), 300 if q else 6000),
        Stratum("polygon/6-8", "hyp", PC.polygon_case(6, 8), 400 if q else 12000),
        Stratum("polygon/needle", "hyp", PC.needle_polygon_case(), 120 if q else 4000),
        Stratum("pyramid", "hyp", PC.pyramid_case(), 400 if q else 12000),
    ]
    for f in fams:
        out.append(Stratum("polyhedron/" + f, "hyp", PC.polyhedron_case(f), 120 if q else 4000))
    return out
