"""C09 - polygon/polyhedron construction is order-independent and canonical."""
import math
import itertools
from fractions import Fraction as F
from hypothesis import strategies as st, assume

from ..common import lib
from ..engine import Fail, Stratum
from .. import exact as X, bridge as B, genbody as GB, permcase as PC, admit as A

ID = "C09"
WITNESS = ("eps", "round")
RULE = (
    "convex polygons (3-8 lattice vertices, arbitrary pose) given as an arbitrary vertex sequence with repeats "
    "(ALL permutations for <= 5 vertices inside each case) and closed convex polyhedra (7 families, 4-10 "
    "vertices) given with arbitrary face order, arbitrary vertex order per face and an arbitrary subset of "
    "faces negated; plus library intersection results (polygon sections of polyhedra, polyhedron overlaps) fed "
    "back into the constructors. Oracle (exact hull): polygon.points are exactly the distinct input vertices "
    "(1e-12) in the exact boundary cycle, counter-clockwise about plane.n; -p has the same vertices, negated "
    "normal, reversed cycle; -(-p) has the original normal and cycle (and eq_with_normal agrees: True for -(-p) vs p, "
    "False for p vs -p); polyhedron face normals point away from "
    "an exact interior point, point_set/segment_set/convex_polygons equal the exact vertex/edge/face sets "
    "(V-E+F=2), center_point strictly inside. non-trivial = permuted, repeated or flipped input; distinct = "
    "distinct (shape, representation)."
)
ASSUMPTIONS = [
    "float coordinates (exact for the lattice); vertices matched within 1e-12 for lattice inputs, 1e-7 for fed-back intersection results",
    "eq_with_normal is not used as the oracle for -(-p): normal and cycle are compared attribute-wise",
]


def cyc_equal(got, exp, tol):
    """is the list got a rotation of exp (same direction), element-wise within tol"""
    m = len(exp)
    if len(got) != m:
        return False
    for r in range(m):
        if all(B._close(got[i], exp[(i + r) % m], tol) for i in range(m)):
            return True
    return False


def check_polygon_obj(o, pts, what, facts, tol=1e-12):
    """o: library polygon; pts: exact cyclic vertex list (either orientation)"""
    got = [B._xyz(p) for p in o.points]
    exp = [X.fl(p) for p in pts]
    if not B._match_sets(got, exp, tol):
        raise Fail("%s: points are not exactly the distinct input vertices" % what, {"got": got, "expected": exp}, facts)
    if not (cyc_equal(got, exp, tol) or cyc_equal(got, list(reversed(exp)), tol)):
        raise Fail("%s: points do not form the boundary cycle" % what, {"got": got, "expected": exp}, facts)
    n = B._v3(o.plane.n)
    s = [0.0, 0.0, 0.0]
    m = len(got)
    for i in range(m):
        c = B._fcross(got[i], got[(i + 1) % m])
        s = [s[0] + c[0], s[1] + c[1], s[2] + c[2]]
    if B._fdot(s, n) <= 0:
        raise Fail("%s: vertex cycle is not counter-clockwise about plane.n" % what, {"got": got, "n": n}, facts)
    en = X.fl(X.poly_normal(pts))
    if not B._parallel(n, en):
        raise Fail("%s: plane normal is not normal to the polygon" % what, {"n": n, "expected": en}, facts)
    return got, n


def check_polygon(case, ctx, G):
    pts = case[1]
    m = len(pts)
    facts = {"kind": "G", "n": m}
    cls = "polygon/%d%s" % (m, "/dup" if len(case[2]) > m else "")
    ctx.cls(cls)
    if PC.is_permuted(case):
        ctx.nontrivial(case)
    ctx.sample(cls, case)
    orders = [case[2]]
    if m <= 5:
        orders += list(itertools.permutations(range(m)))
        ctx.note("all-permutations-polygons")

    def step(name, fn, *a):
        s, v = B.call(fn, *a)
        if s == "raise":
            raise Fail("%s raises %s" % (name, B.exc_sig(v)), {"error": repr(v)}, facts)
        return v

    for od in orders:
        o = step("ConvexPolygon(vertices in any order)", PC.build_polygon, pts, od)
        got, n = check_polygon_obj(o, pts, "ConvexPolygon", facts)
        neg = step("-polygon", lambda: -o)
        gotn, nn = check_polygon_obj(neg, pts, "-polygon", facts)
        if not (B._parallel(n, nn) and B._fdot(n, nn) < 0):
            raise Fail("-polygon: normal is not reversed", {"n": n, "neg": nn}, facts)
        if not cyc_equal(gotn, list(reversed(got)), 1e-12):
            raise Fail("-polygon: vertex cycle is not reversed", {"got": gotn, "original": got}, facts)
        nn2 = step("-(-polygon)", lambda: -neg)
        got2, n2 = check_polygon_obj(nn2, pts, "-(-polygon)", facts)
        if max(abs(a - b) for a, b in zip(n, n2)) > 1e-12:
            raise Fail("-(-polygon): normal differs from the original", {"n": n, "again": n2}, facts)
        if not cyc_equal(got2, got, 1e-12):
            raise Fail("-(-polygon): vertex cycle differs from the original", {"got": got2, "original": got}, facts)
        # normal and cycle of -(-p) equal those of p (checked attribute-wise above), so the public normal-aware
        # comparison must agree; and it must tell p from -p, whose normal is reversed
        if step("eq_with_normal", lambda: nn2.eq_with_normal(o)) is not True or step("eq_with_normal", lambda: o.eq_with_normal(nn2)) is not True:
            raise Fail("eq_with_normal(-(-p), p) is not True although normal and vertex cycle match", {"n": n}, facts)
        if step("eq_with_normal", lambda: o.eq_with_normal(neg)) is not False or step("eq_with_normal", lambda: neg.eq_with_normal(o)) is not False:
            raise Fail("eq_with_normal(p, -p) is not False although the normal is reversed", {"n": n, "neg": nn}, facts)


def check_polyhedron_obj(o, K, what, facts, tol=1e-12):
    V, E, Fc = X.euler(K)
    pts = [X.fl(p) for p in K[1]]
    got_pts = [B._xyz(p) for p in o.point_set]
    if not B._match_sets(got_pts, pts, tol):
        raise Fail("%s: point_set is not the exact vertex set" % what, {"got": len(got_pts), "expected": V}, facts)
    edges = [(X.fl(p), X.fl(q)) for p, q in X.edges_of(K)]
    got_edges = [(B._xyz(s.start_point), B._xyz(s.end_point)) for s in o.segment_set]
    if len(got_edges) != E:
        raise Fail("%s: segment_set has %d edges, the body has %d" % (what, len(got_edges), E), {}, facts)
    used = [False] * E
    for a, b in got_edges:
        hit = None
        for j, (p, q) in enumerate(edges):
            if not used[j] and ((B._close(a, p, tol) and B._close(b, q, tol)) or (B._close(a, q, tol) and B._close(b, p, tol))):
                hit = j
                break
        if hit is None:
            raise Fail("%s: segment_set contains a segment that is not an edge" % what, {"segment": (a, b)}, facts)
        used[hit] = True
    faces = list(o.convex_polygons)
    if len(faces) != Fc:
        raise Fail("%s: %d faces, the body has %d" % (what, len(faces), Fc), {}, facts)
    if len(got_pts) - len(got_edges) + len(faces) != 2:
        raise Fail("%s: V-E+F != 2" % what, {}, facts)
    # each library face is an exact face, with outward normal
    interior = X.fl(X.centroid(K[1]))
    fused = [False] * Fc
    for f in faces:
        fp = [B._xyz(p) for p in f.points]
        hit = None
        for j, (_n, _b, idx) in enumerate(K[2]):
            if not fused[j] and B._match_sets(fp, [pts[i] for i in idx], tol):
                hit = j
                break
        if hit is None:
            raise Fail("%s: a face is not a face of the body" % what, {"face": fp}, facts)
        fused[hit] = True
        n = B._v3(f.plane.n)
        en = [float(c) for c in K[2][hit][0]]
        if not B._parallel(n, en) or B._fdot(n, en) <= 0:
            raise Fail("%s: a face normal does not point away from the interior" % what, {"n": n, "outward": en}, facts)
        w = (fp[0][0] - interior[0], fp[0][1] - interior[1], fp[0][2] - interior[2])
        if B._fdot(n, w) <= 0:
            raise Fail("%s: a face normal points towards an interior point" % what, {"n": n}, facts)
        # the face's own vertex cycle must be counter-clockwise about its (outward) normal
        s = [0.0, 0.0, 0.0]
        m = len(fp)
        for i in range(m):
            c = B._fcross(fp[i], fp[(i + 1) % m])
            s = [s[0] + c[0], s[1] + c[1], s[2] + c[2]]
        if B._fdot(s, n) <= 0:
            raise Fail("%s: a face's vertex cycle is clockwise about its normal" % what, {"face": fp, "n": n}, facts)
    c = B._xyz(o.center_point)
    cq = tuple(F(x) for x in c)
    mg = X.min_margin(cq, X.hrep(K))
    if not X.contains(K, cq) or mg is None or mg < 1e-9:
        raise Fail("%s: center_point is not strictly inside" % what, {"center": c}, facts)


def check_polyhedron(case, ctx, G):
    K = case[1]
    V, E, Fc = X.euler(K)
    facts = {"kind": "K", "V": V, "F": Fc}
    cls = "polyhedron/V%d/F%d/flips%d" % (V, Fc, min(3, sum(case[4])))
    ctx.cls(cls)
    ctx.nontrivial(case)
    ctx.sample(cls, case)
    s, o = B.call(PC.build_case, case)
    if s == "raise":
        raise Fail("ConvexPolyhedron(faces in any order/orientation) raises %s" % B.exc_sig(o), {"error": repr(o)}, facts)
    check_polyhedron_obj(o, K, "ConvexPolyhedron", facts)


def check_feedback(case, ctx, G):
    """library intersection results are valid constructor inputs and canonical themselves"""
    _k, a, b = case
    facts = {"kind": "feedback", "pair": "%s-%s" % (a[0], b[0])}
    r = X.inter(a, b)
    cls = "feedback/%s-%s:%s" % (a[0], b[0], B.kind_name(r))
    ctx.cls(cls)
    if r is not None and r[0] in ("G", "K"):
        ctx.nontrivial(case)
    ctx.sample(cls, case)
    if r is None or r[0] not in ("G", "K"):
        return
    s, res = B.call(G.intersection, B.build(a), B.build(b))
    if s == "raise":
        raise Fail("intersection raises %s" % B.exc_sig(res), {"error": repr(res)}, facts)
    d = B.denote(res)
    if d is None or d[0] != r[0]:
        return  # wrong results are C02/C03's business
    if r[0] == "G":
        check_polygon_obj(res, r[1], "intersection result polygon", facts, 1e-7)
        pts = list(res.points)
        for od in (list(reversed(range(len(pts)))), list(range(1, len(pts))) + [0, 0]):
            s2, again = B.call(lambda: G.ConvexPolygon(tuple(pts[i] for i in od)))
            if s2 == "raise":
                raise Fail("ConvexPolygon(result vertices) raises %s" % B.exc_sig(again), {"error": repr(again)}, facts)
            check_polygon_obj(again, r[1], "polygon rebuilt from result vertices", facts, 1e-7)
    else:
        check_polyhedron_obj(res, r, "intersection result polyhedron", facts, 1e-7)
        fs = list(res.convex_polygons)
        fs = [(-f if i % 2 else f) for i, f in enumerate(reversed(fs))]
        s2, again = B.call(lambda: G.ConvexPolyhedron(tuple(fs)))
        if s2 == "raise":
            raise Fail("ConvexPolyhedron(result faces) raises %s" % B.exc_sig(again), {"error": repr(again)}, facts)
        check_polyhedron_obj(again, r, "polyhedron rebuilt from result faces", facts, 1e-7)


def check(case, ctx):
    G = lib()
    if case[0] == "G":
        return check_polygon(case, ctx, G)
    if case[0] == "K":
        return check_polyhedron(case, ctx, G)
    return check_feedback(case, ctx, G)


def admit(case, fail):
    if case[0] == "FB":
        _k, a, b = case
        return A.body_case_margin(a, b, X.inter(a, b)).reason()
    return None


@st.composite
def feedback_case(draw, kind):
    K = draw(GB.polyhedron())
    if kind == "PL":
        fts = draw(st.sampled_from((("V", "V", "V"), ("E", "E", "E"), ("V", "E", "I"), ("I", "X", "X"), ("E", "E", "V"))))
        pl = draw(GB.flat_vs_body(K, "PL", *fts))
        return ("FB", pl, K)
    if kind == "G":
        g = draw(GB.polygon_vs_polyhedron(K, draw(st.sampled_from(("section-big", "section-partial", "face-shifted")))))
        return ("FB", g, K)
    K2 = draw(GB.polyhedron_vs_polyhedron(K, draw(st.sampled_from(("translate-half", "nested", "translate-vertex")))))
    return ("FB", K, K2)


def strata(tier):
    q = tier == "quick"
    fams = ["tetra", "box", "para", "prism", "pyramid", "bipyramid", "hull", "quirk"]
    out = [
        Stratum("polygon/3-5", "hyp", PC.polygon_case(3, 5), 250 if q else 6000),
        Stratum("polygon/6-8", "hyp", PC.polygon_case(6, 8), 400 if q else 12000),
    ]
    for f in fams:
        out.append(Stratum("polyhedron/" + f, "hyp", PC.polyhedron_case(f), 120 if q else 4000))
    out.append(Stratum("feedback/plane-section", "hyp", feedback_case("PL"), 150 if q else 4000))
    out.append(Stratum("feedback/polygon-section", "hyp", feedback_case("G"), 100 if q else 3000))
    out.append(Stratum("feedback/polyhedron-overlap", "hyp", feedback_case("K"), 48 if q else 1500))
    return out
