"""C05 - membership (`in`) agrees with exact geometric containment."""
from fractions import Fraction as F
from hypothesis import strategies as st, assume

from ..common import lib
from ..engine import Fail, Stratum
from .. import exact as X, bridge as B, gen, genbody as GB, admit as A

ID = "C05"
WITNESS = ()
RULE = (
    "containers Line, HalfLine, Segment, Plane (free lattice flats) and ConvexPolygon, ConvexPolyhedron (generated "
    "bodies, arbitrary pose). Point candidates: on the carrier at parameters {-1,-1/2,0,1/4,1/2,1,3/2,2}, in-plane "
    "lattice points, displaced off the carrier; for bodies every feature type (vertex, edge point, edge carrier "
    "beyond the end, face point, face plane outside the face, interior, exterior lattice point) and near-misses: a "
    "boundary feature point pushed outward by 1/512, 1/64, 1/8 or 1/2 of the primitive outward normal (face "
    "normal, in-plane edge normal, or the polygon's plane normal). Composite candidates exactly for the supported "
    "pairs (Segment in L/H/S/PL/G/K, HalfLine in L/H/PL, Line in PL, ConvexPolygon in PL/K) built as sub-objects, "
    "partial overlaps, parallel-displaced and crossing objects. Oracle: exact H-representation membership of all "
    "defining points (plus direction conditions for unbounded candidates); the truth value of `x in S` must equal "
    "it. non-trivial = candidate on the container's carrier or within distance 1 of its boundary; each case also draws int/float coordinates and constructor forms (for Segments including one whose end point was replaced by item assignment); distinct = "
    "distinct (container, candidate)."
)
ASSUMPTIONS = [
    "only the truth value of `x in S` is observed (Python coerces __contains__ results)",
    "unsupported pairs (e.g. polygon in polygon, half-line in polygon) are outside the statement and not exercised",
    "near-miss offsets are >= 1/512 of a primitive integer normal, i.e. >= 1.9e-3 in distance",
]

OFFS = (F(1, 512), F(1, 64), F(1, 8), F(1, 2))


def check(case, ctx):
    G = lib()
    S, x, tag = case[0], case[1], case[2]
    var = case[3] if len(case) > 3 else B.DEFAULT_VAR
    want = X.subset(x, S)
    near = tag.startswith("near") or tag in ("on", "V", "E", "E+", "F", "F+", "sub", "partial", "touch")
    cls = "%s in %s/%s:%s" % (x[0], S[0], tag, want)
    ctx.cls(cls)
    if near or want:
        ctx.nontrivial(case)
    ctx.sample(cls, case, want)
    oS, ox = B.build_var(S, x, var)
    s, v = B.call(lambda: ox in oS)
    facts = {"pair": "%s in %s" % (x[0], S[0]), "tag": tag, "expected": want}
    if s == "raise":
        raise Fail("%s in %s raises %s" % (x[0], S[0], B.exc_sig(v)), {"error": repr(v)}, facts)
    if v is not want:
        raise Fail("%s in %s is %s, exact containment is %s" % (x[0], S[0], v, want), {"tag": tag}, facts)


def admit(case, fail):
    S, x = case[0], case[1]
    m = A.pair_margin(S, x)
    H = X.hrep(S)
    pts = A.features(x)[0]
    for p in pts:
        v = X.min_margin(p, H)
        if v is not None:
            m.see(v, "candidate point vs container constraint")
    A.extent_margin(S, pts, m)
    return m.reason()


# ---------------------------------------------------------------- strategies
@st.composite
def flat_container_point(draw, kS, recipe):
    S = draw(gen.free_flat(kS))
    if recipe == "near":
        q = draw(gen.point_on(S))
        off = draw(st.sampled_from(OFFS))
        if kS == "PL":
            d = X.mul(off * draw(st.sampled_from((1, -1))), tuple(F(c) for c in X.primitive(S[2])))
        else:
            u, v = X.perp2(gen.carrier_dir(S))
            w = draw(st.sampled_from((u, v, X.add(u, v))))
            d = X.mul(off * draw(st.sampled_from((1, -1))), tuple(F(c) for c in X.primitive(w)))
        return (S, ("P", X.add(q, d)), "near-carrier")
    if recipe == "near-end":
        assume(kS in ("S", "H"))
        d = gen.carrier_dir(S)
        end = draw(st.sampled_from((0, 1))) if kS == "S" else 0
        base = S[1] if end == 0 else S[2]
        sign = -1 if end == 0 else 1
        off = draw(st.sampled_from(OFFS))
        dp = tuple(F(c) for c in X.primitive(d))
        return (S, ("P", X.add(base, X.mul(sign * off, dp))), "near-end")
    x = draw(gen.related_flat(S, "P", recipe))
    return (S, x, recipe)


@st.composite
def body_container_point(draw, kS, ft):
    S = draw(GB.body(kS))
    if not ft.startswith("near"):
        assume(not (kS == "G" and ft == "I" and False))
        return (S, ("P", draw(GB.feature_point(S, ft))), ft)
    off = draw(st.sampled_from(OFFS))
    if kS == "K":
        if ft == "near-F":
            n, b, idx = draw(st.sampled_from(S[2]))
            f = [S[1][i] for i in idx]
            base = X.mul(F(1, 4), X.add(X.mul(2, f[0]), X.add(f[1], f[2])))
            nv = tuple(F(c) for c in n)
        elif ft == "near-E":
            p, q = draw(st.sampled_from(X.edges_of(S)))
            i0, i1 = S[1].index(p), S[1].index(q)
            adj = [f for f in S[2] if i0 in f[2] and i1 in f[2]]
            base = X.add(p, X.mul(draw(st.sampled_from((F(1, 2), F(1, 4)))), X.sub(q, p)))
            which = draw(st.integers(0, 2))
            nv = adj[0][0] if which == 0 else adj[1][0] if which == 1 else X.add(adj[0][0], adj[1][0])
            nv = tuple(F(c) for c in X.primitive(nv))
        else:  # near-V
            vi = draw(st.integers(0, len(S[1]) - 1))
            adj = [f for f in S[2] if vi in f[2]]
            base = S[1][vi]
            k = draw(st.integers(0, len(adj)))
            if k == len(adj):
                nv = (0, 0, 0)
                for f in adj:
                    nv = X.add(nv, f[0])
            else:
                nv = adj[k][0]
            nv = tuple(F(c) for c in X.primitive(nv))
        inward = draw(st.integers(0, 4)) == 0
        return (S, ("P", X.add(base, X.mul(-off if inward else off, nv))), ft + ("-in" if inward else ""))
    # polygon
    pts = S[1]
    n = X.poly_normal(pts)
    m = len(pts)
    i = draw(st.integers(0, m - 1))
    a, b = pts[i], pts[(i + 1) % m]
    if ft == "near-F":  # off the plane above an interior point
        base = X.mul(F(1, 4), X.add(X.mul(2, pts[0]), X.add(pts[1], pts[2])))
        nv = tuple(F(c) for c in X.primitive(n))
        sgn = draw(st.sampled_from((1, -1)))
        return (S, ("P", X.add(base, X.mul(sgn * off, nv))), ft)
    en = tuple(F(c) for c in X.primitive(X.cross(X.sub(b, a), n)))  # outward in-plane edge normal
    if ft == "near-E":
        base = X.add(a, X.mul(draw(st.sampled_from((F(1, 2), F(1, 4)))), X.sub(b, a)))
        mode = draw(st.integers(0, 2))
        if mode == 2:  # above the edge, off-plane
            nv = tuple(F(c) for c in X.primitive(n))
            return (S, ("P", X.add(base, X.mul(off, nv))), ft + "-offplane")
        return (S, ("P", X.add(base, X.mul(off if mode == 0 else -off, en))), ft + ("" if mode == 0 else "-in"))
    # near-V
    c = pts[(i + 2) % m]
    en2 = tuple(F(k) for k in X.primitive(X.cross(X.sub(c, b), n)))
    w = draw(st.sampled_from((en, en2, X.add(en, en2))))
    return (S, ("P", X.add(b, X.mul(off, w))), ft)


COMPOSITE_FLAT = [
    ("S", "L"), ("S", "H"), ("S", "S"), ("S", "PL"),
    ("H", "L"), ("H", "H"), ("H", "PL"), ("L", "PL"),
]


@st.composite
def flat_composite(draw, kx, kS, recipe):
    if recipe == "cross-inexact-elimination":
        S, x = draw(gen.flat_pair(kS, kx, recipe))
        return (S, x, "composite/" + recipe)
    S = draw(gen.free_flat(kS))
    x = draw(gen.related_flat(S, kx, recipe))
    return (S, x, "composite/" + recipe)


@st.composite
def sub_segment(draw, kS):
    """segment with both ends on the container's carrier at table parameters"""
    S = draw(gen.free_flat(kS))
    a = draw(gen.point_on(S))
    b = draw(gen.point_on(S))
    assume(tuple(a) != tuple(b))
    return (S, ("S", a, b), "sub")


@st.composite
def segment_in_body(draw, kS, f1, f2):
    S = draw(GB.body(kS))
    x = draw(GB.flat_vs_body(S, "S", f1, f2))
    inside = {"V", "E", "F", "I"}
    tag = "sub" if (f1 in inside and f2 in inside) else "partial" if (f1 in inside or f2 in inside) else "outside"
    return (S, x, tag)


@st.composite
def polygon_in_plane(draw, recipe):
    g = draw(GB.polygon())
    if recipe in ("face", "parallel-out"):
        pl = draw(GB.special_plane(g, recipe))
    elif recipe == "tilted":
        pl = draw(GB.flat_vs_body(g, "PL", "V", "E", "X"))
    else:
        pl = draw(GB.flat_vs_body(g, "PL", draw(st.sampled_from(("V", "E", "I"))), draw(st.sampled_from(("V", "E", "F+"))), draw(st.sampled_from(("V", "I", "X")))))
    return (pl, g, "composite/" + recipe)


@st.composite
def polygon_in_polyhedron(draw, recipe):
    K = draw(GB.polyhedron())
    g = draw(GB.polygon_vs_polyhedron(K, recipe))
    tag = {"inside": "sub", "face": "sub", "face-smaller": "sub", "section-small": "sub"}.get(recipe, "partial")
    return (K, g, tag + "/" + recipe)


def strata(tier):
    q = tier == "quick"
    out = []
    n = 150 if q else 5000
    for kS in ("L", "H", "S", "PL"):
        for rec in ("on", "off", "free", "near"):
            out.append(Stratum("P in %s/%s" % (kS, rec), "hyp", gen.with_variant(flat_container_point(kS, rec)), n))
    for kS in ("H", "S"):
        out.append(Stratum("P in %s/near-end" % kS, "hyp", gen.with_variant(flat_container_point(kS, "near-end")), n))
    n = 70 if q else 2500
    for kS in ("G", "K"):
        for ft in ("V", "E", "E+", "F", "F+", "I", "X", "near-F", "near-E", "near-V"):
            out.append(Stratum("P in %s/%s" % (kS, ft), "hyp", gen.with_variant(body_container_point(kS, ft)), n))
    n = 80 if q else 2500
    for kx, kS in COMPOSITE_FLAT:
        for rec in gen.flat_recipes(kS, kx):
            out.append(Stratum("%s in %s/%s" % (kx, kS, rec), "hyp", gen.with_variant(flat_composite(kx, kS, rec)), n))
    for kS in ("L", "H", "S", "PL"):
        out.append(Stratum("S in %s/sub" % kS, "hyp", gen.with_variant(sub_segment(kS)), n))
    n = 30 if q else 1000
    for kS in ("G", "K"):
        for f1 in ("V", "E", "F", "I"):
            for f2 in ("V", "E", "F", "I", "E+", "F+", "X"):
                if kS == "G" and "I" in (f1, f2) and False:
                    continue
                out.append(Stratum("S in %s/%s-%s" % (kS, f1, f2), "hyp", gen.with_variant(segment_in_body(kS, f1, f2)), n))
        out.append(Stratum("S in %s/X-X" % kS, "hyp", gen.with_variant(segment_in_body(kS, "X", "X")), n))
    n = 100 if q else 3000
    for rec in ("face", "parallel-out", "tilted", "through"):
        out.append(Stratum("G in PL/%s" % rec, "hyp", gen.with_variant(polygon_in_plane(rec)), n))
    n = 40 if q else 1500
    for rec in ("inside", "face", "face-smaller", "face-shifted", "face-bigger", "section-small", "section-partial", "touch-V", "free"):
        out.append(Stratum("G in K/%s" % rec, "hyp", gen.with_variant(polygon_in_polyhedron(rec)), n))
    return out
