"""C08 - equality is representation-independent and consistent with hashing."""
import copy
import itertools
from fractions import Fraction as F
from hypothesis import strategies as st, assume

from ..common import lib
from ..engine import Fail, Stratum
from .. import exact as X, bridge as B, gen, genbody as GB, permcase as PC, admit as A

ID = "C08"
WITNESS = ("round",)
RULE = (
    "for one exact object of each type (Point, Vector, Line, Plane, Segment, HalfLine, ConvexPolygon, "
    "ConvexPolyhedron) a family of 3-6 alternative exact representations is generated: other defining points on "
    "the carrier, direction/normal scalings by +-k (positive only for HalfLine), swapped end points, constructor "
    "forms (two points / point+vector / position vector / three points / two vectors / general form), vertex "
    "rotations, reflections and repeats, face permutations and negations, int / float / Fraction coordinates (also mixed within one Point or Vector), lines and planes as the library computes them (intersection of two planes; plane through three computed line hits) "
    "(dyadic lattice values), and a copy moved by v and back by -v; plus a family of near-miss different sets (one "
    "defining point displaced by >= 1/512, direction tilted by a lattice step, one vertex changed or removed, and "
    "pairs that differ only by the coordinate values -1 / -2, which collide under CPython's float hash). Oracle: within "
    "a family all ordered pairs a == b, not (a != b), hash(a) == hash(b), len(set(family)) == 1 and dict lookup "
    "with another representation succeeds; across a near-miss pair a != b in both orders; a == a; == against "
    "None, 3, 'x', a tuple and an object of another geometry type is False without raising (Point, Line, Plane, "
    "ConvexPolygon, ConvexPolyhedron only). non-trivial = family with >= 3 different representations; distinct = "
    "distinct family."
    ' Segments and HalfLines are also rebuilt from their parametric() tuples and, for Segments, from item access s[1], s[0].'
)
ASSUMPTIONS = [
    "Segment/HalfLine/Vector == against foreign types is excluded exactly as the statement excludes it",
    "failing cases are reported only inside the admission domain (run-time tolerance/rounding witness: hashed floats within 1% of a rounding step of a boundary are outside the domain)",
]

CT = {"f": float, "i": int, "q": F, "m": B.MIXED}


def build_rep(kind, o, rep):
    """build representation rep of exact object o"""
    G = lib()
    ct = CT[rep[-1]]
    if kind == "P":
        form = rep[0]
        if form == "xyz":
            return B.pt(o[1], ct)
        if form == "list":
            return G.Point([B.conv(c, ct) for c in o[1]])
        if form == "vector":
            return G.Point(B.vec(o[1], ct))
        if form == "moved":
            p = B.pt(o[1], ct)
            v = B.vec(rep[1], ct)
            p.move(v)
            p.move(-v)
            return p
    if kind == "V":
        form = rep[0]
        if form == "xyz":
            return B.vec(o[1], ct)
        if form == "list":
            return G.Vector([B.conv(c, ct) for c in o[1]])
        if form == "points":
            a = rep[1]
            return G.Vector(B.pt(a, ct), B.pt(X.add(a, o[1]), ct))
    if kind == "L":
        form, t, k = rep[0], rep[1], rep[2]
        p = X.add(o[1], X.mul(t, o[2]))
        d = X.mul(k, o[2])
        if form == "pv":
            return G.Line(B.pt(p, ct), B.vec(d, ct))
        if form == "pp":
            return G.Line(B.pt(p, ct), B.pt(X.add(p, d), ct))
        if form == "vv":
            return G.Line(B.vec(p, ct), B.vec(d, ct))
        if form == "moved":
            l = G.Line(B.pt(p, ct), B.vec(d, ct))
            v = B.vec(rep[3], ct)
            l.move(v)
            l.move(-v)
            return l
        if form == "computed":
            # the line as the library computes it: intersection of two planes through it (its direction and support
            # then carry float noise where the exact values are zero or short fractions)
            u, v = X.perp2(o[2])
            a, b = rep[3]
            n1 = X.add(u, X.mul(a, v))
            n2 = X.add(X.mul(b, u), v)
            r = G.intersection(G.Plane(B.pt(p, ct), B.vec(n1, ct)), G.Plane(B.pt(X.add(p, d), ct), B.vec(n2, ct)))
            if not isinstance(r, G.Line):
                raise TypeError("intersection of two planes through a line is a %s" % type(r).__name__)
            return r
    if kind == "PL":
        form, ij, k = rep[0], rep[1], rep[2]
        u, v = X.perp2(o[2])
        p = X.add(o[1], X.add(X.mul(ij[0], u), X.mul(ij[1], v)))
        n = X.mul(k, o[2])
        if form == "pn":
            return G.Plane(B.pt(p, ct), B.vec(n, ct))
        if form == "3p":
            a, b = rep[3]
            q1 = X.add(p, X.add(X.mul(a[0], u), X.mul(a[1], v)))
            q2 = X.add(p, X.add(X.mul(b[0], u), X.mul(b[1], v)))
            return G.Plane(B.pt(p, ct), B.pt(q1, ct), B.pt(q2, ct))
        if form == "pvv":
            a, b = rep[3]
            w1 = X.add(X.mul(a[0], u), X.mul(a[1], v))
            w2 = X.add(X.mul(b[0], u), X.mul(b[1], v))
            return G.Plane(B.pt(p, ct), B.vec(w1, ct), B.vec(w2, ct))
        if form == "computed3p":
            # three points of the plane as the library computes them: hits of oblique lines (non-dyadic parameters)
            a, b = rep[3]
            q0 = p
            q1 = X.add(p, X.add(X.mul(a[0], u), X.mul(a[1], v)))
            q2 = X.add(p, X.add(X.mul(b[0], u), X.mul(b[1], v)))
            base = G.Plane(B.pt(o[1], ct), B.vec(o[2], ct))
            hits = []
            for q, w in zip((q0, q1, q2), rep[4]):
                w = tuple(F(c) for c in w)
                if X.dot(w, o[2]) == 0:
                    w = X.add(w, o[2])
                h = G.intersection(G.Line(B.pt(X.sub(q, X.mul(F(1, 3), w)), float), B.vec(w, float)), base)
                if not isinstance(h, G.Point):
                    raise TypeError("intersection of a crossing line with the plane is a %s" % type(h).__name__)
                hits.append(h)
            return G.Plane(hits[0], hits[1], hits[2])
        if form == "gf":
            d = X.dot(n, o[1])
            return G.Plane(B.conv(n[0], ct), B.conv(n[1], ct), B.conv(n[2], ct), B.conv(d, ct))
        if form == "neg":
            return -G.Plane(B.pt(p, ct), B.vec(n, ct))
        if form == "moved":
            pl = G.Plane(B.pt(p, ct), B.vec(n, ct))
            w = B.vec(rep[3], ct)
            pl.move(w)
            pl.move(-w)
            return pl
    if kind == "S":
        form, sw = rep[0], rep[1]
        a, b = (o[2], o[1]) if sw else (o[1], o[2])
        if form == "pp":
            return G.Segment(B.pt(a, ct), B.pt(b, ct))
        if form == "pv":
            return G.Segment(B.pt(a, ct), B.vec(X.sub(b, a), ct))
        if form == "moved":
            s = G.Segment(B.pt(a, ct), B.pt(b, ct))
            w = B.vec(rep[2], ct)
            s.move(w)
            s.move(-w)
            return s
        if form == "parametric":
            # "Returns (start_point, end_point) so that you can build the information for the segment"
            return G.Segment(*G.Segment(B.pt(a, ct), B.pt(b, ct)).parametric())
        if form == "items":
            s = G.Segment(B.pt(a, ct), B.vec(X.sub(b, a), ct))
            return G.Segment(s[1], s[0])
    if kind == "H":
        form, k = rep[0], rep[1]
        d = X.mul(k, o[2])
        if form == "pv":
            return G.HalfLine(B.pt(o[1], ct), B.vec(d, ct))
        if form == "pp":
            return G.HalfLine(B.pt(o[1], ct), B.pt(X.add(o[1], d), ct))
        if form == "moved":
            h = G.HalfLine(B.pt(o[1], ct), B.vec(d, ct))
            w = B.vec(rep[2], ct)
            h.move(w)
            h.move(-w)
            return h
        if form == "parametric":
            return G.HalfLine(*G.HalfLine(B.pt(o[1], ct), B.pt(X.add(o[1], d), ct)).parametric())
    if kind == "G":
        form, order = rep[0], rep[1]
        g = PC.build_polygon(o[1], order, ct)
        if form == "neg":
            return -g
        if form == "moved":
            w = B.vec(rep[2], ct)
            g.move(w)
            g.move(-w)
        return g
    if kind == "K":
        form = rep[0]
        k = PC.build_case(("K", o, rep[1], rep[2], rep[3]), ct)
        if form == "moved":
            w = B.vec(rep[4], ct)
            k.move(w)
            k.move(-w)
        return k
    raise ValueError((kind, rep))


def foreign_values(G, kind):
    other = G.Point(1, 2, 3) if kind != "P" else G.Line(G.Point(0, 0, 0), G.Vector(1, 0, 0))
    return [None, 3, "x", (1, 2, 3), 2.5, other, [1, 2, 3], {}, set(), object()]


def check(case, ctx):
    G = lib()
    mode, kind, o = case[0], case[1], case[2]
    facts = {"kind": kind, "mode": mode}

    def guard(name, fn):
        s, v = B.call(fn)
        if s == "raise":
            raise Fail("%s [%s] raises %s" % (name, kind, B.exc_sig(v)), {"error": repr(v)}, facts)
        return v

    if mode == "FAM":
        reps = case[3]
        cls = "family/%s/%d" % (kind, len(reps))
        ctx.cls(cls)
        for r in reps:
            ctx.cls("rep/%s/%s/%s" % (kind, r[0], r[-1]))
        if len(set(reps)) >= 3:
            ctx.nontrivial(case)
        ctx.sample(cls, case)
        objs = [guard("constructor %s" % (r[0],), lambda r=r: build_rep(kind, o, r)) for r in reps]
        hs = [guard("hash", lambda x=x: hash(x)) for x in objs]
        for (i, a), (j, b) in itertools.product(enumerate(objs), repeat=2):
            eq = guard("==", lambda: a == b)
            if eq is not True:
                raise Fail("two representations of the same %s compare unequal" % kind, {"reps": [reps[i], reps[j]], "eq": repr(eq)}, facts)
            ne = guard("!=", lambda: a != b)
            if ne is not False:
                raise Fail("a != b is not False for two representations of the same %s" % kind, {"reps": [reps[i], reps[j]]}, facts)
            if hs[i] != hs[j]:
                raise Fail("equal %s objects have different hashes" % kind, {"reps": [reps[i], reps[j]]}, facts)
        n = guard("set", lambda: len(set(objs)))
        if n != 1:
            raise Fail("set() keeps %d copies of one %s" % (n, kind), {"reps": reps}, facts)
        d = {objs[0]: "v"}
        if guard("dict lookup", lambda: d.get(objs[-1])) != "v":
            raise Fail("dict lookup with another representation of the same %s fails" % kind, {"reps": [reps[0], reps[-1]]}, facts)
        if kind in ("P", "L", "PL", "G", "K"):
            for fv in foreign_values(G, kind):
                r1 = guard("== foreign", lambda: objs[0] == fv)
                if r1 is not False:
                    raise Fail("%s == %s is not False" % (kind, type(fv).__name__), {"got": repr(r1)}, facts)
                r2 = guard("!= foreign", lambda: objs[0] != fv)
                if r2 is not True:
                    raise Fail("%s != %s is not True" % (kind, type(fv).__name__), {"got": repr(r2)}, facts)
        return
    # near miss
    o2, rep1, rep2 = case[3], case[4], case[5]
    cls = "nearmiss/%s/%s" % (kind, case[6])
    ctx.cls(cls)
    ctx.nontrivial(case)
    ctx.sample(cls, case)
    a = guard("constructor", lambda: build_rep(kind, o, rep1))
    b = guard("constructor", lambda: build_rep(kind, o2, rep2))
    for x, y in ((a, b), (b, a)):
        if guard("==", lambda: x == y) is not False:
            raise Fail("different %s objects compare equal" % kind, {"a": o, "b": o2, "how": case[6]}, facts)
        if guard("!=", lambda: x != y) is not True:
            raise Fail("a != b is not True for different %s objects" % kind, {"a": o, "b": o2}, facts)
    if guard("==", lambda: a == a) is not True:
        raise Fail("%s is not equal to itself" % kind, {}, facts)
    if guard("set", lambda: len({a, b})) != 2:
        raise Fail("set() merges two different %s objects" % kind, {"a": o, "b": o2, "how": case[6]}, facts)


def admit(case, fail):
    if case[0] == "NM":
        kind, o, o2 = case[1], case[2], case[3]
        if kind in ("P", "V"):
            return None
        if kind in ("L", "H", "S", "PL"):
            m = A.pair_margin(o if kind != "V" else ("P", o[1]), o2)
            return m.reason()
    return None


# ---------------------------------------------------------------- strategies
ctypes_for = st.sampled_from(("f", "f", "i", "q", "m"))
lat_vec = gen.direction(3)


@st.composite
def rep_for(draw, kind, o):
    ct = draw(ctypes_for)
    if kind == "P":
        form = draw(st.sampled_from(("xyz", "list", "vector", "moved")))
        if form == "moved":
            return ("moved", draw(gen.direction(3)), ct)
        return (form, ct)
    if kind == "V":
        form = draw(st.sampled_from(("xyz", "list", "points")))
        if form == "points":
            return ("points", draw(gen.lattice_point(4)), ct)
        return (form, ct)
    if kind == "L":
        form = draw(st.sampled_from(("pv", "pp", "vv", "moved", "computed")))
        t = draw(st.sampled_from(gen.T_TABLE + (F(3), F(-5, 2))))
        k = draw(st.sampled_from(gen.SCALES))
        if form == "computed":
            return ("computed", t, k, (F(draw(st.sampled_from((0, 1, -2, 3)))), F(draw(st.sampled_from((0, -1, 2, 5))))), ct)
        if form == "moved":
            return ("moved", t, k, draw(gen.direction(3)), ct)
        return (form, t, k, ct)
    if kind == "PL":
        form = draw(st.sampled_from(("pn", "pn", "3p", "pvv", "gf", "neg", "moved", "computed3p")))
        ij = (F(draw(st.integers(-3, 3))), F(draw(st.integers(-3, 3)), draw(st.sampled_from((1, 2)))))
        k = draw(st.sampled_from(gen.SCALES))
        if form in ("3p", "pvv", "computed3p"):
            a = (draw(st.integers(-2, 2)), draw(st.integers(-2, 2)))
            b = (draw(st.integers(-2, 2)), draw(st.integers(-2, 2)))
            assume(a[0] * b[1] - a[1] * b[0] != 0)
            if form == "computed3p":
                ws = tuple(draw(st.sampled_from(((1, 2, 3), (3, -1, 2), (-2, 3, 1), (1, 1, 3), (3, 2, -1), (2, -3, 3)))) for _ in range(3))
                return (form, ij, k, (a, b), ws, ct)
            return (form, ij, k, (a, b), ct)
        if form == "moved":
            return (form, ij, k, draw(gen.direction(3)), ct)
        return (form, ij, k, ct)
    if kind == "S":
        form = draw(st.sampled_from(("pp", "pv", "moved", "parametric", "items")))
        sw = draw(st.booleans())
        if form == "moved":
            return (form, sw, draw(gen.direction(3)), ct)
        return (form, sw, ct)
    if kind == "H":
        form = draw(st.sampled_from(("pv", "pp", "moved", "parametric")))
        k = draw(st.sampled_from((F(1), F(2), F(3), F(1, 2), F(1, 4), F(5))))
        if form == "moved":
            return (form, k, draw(gen.direction(3)), ct)
        return (form, k, ct)
    if kind == "G":
        form = draw(st.sampled_from(("plain", "plain", "neg", "moved")))
        order = draw(PC.vertex_order(len(o[1])))
        if form == "moved":
            return (form, order, draw(gen.direction(3)), ct)
        return (form, order, ct)
    if kind == "K":
        nf = len(o[2])
        forder = tuple(draw(st.permutations(range(nf))))
        vorders = tuple(draw(PC.vertex_order(len(o[2][i][2]), allow_dup=False)) for i in range(nf))
        flips = tuple(draw(st.booleans()) for _ in range(nf))
        if draw(st.integers(0, 3)) == 0:
            return ("moved", forder, vorders, flips, draw(gen.direction(2)), ct)
        return ("plain", forder, vorders, flips, ct)
    raise ValueError(kind)


@st.composite
def base_object(draw, kind):
    if kind == "P":
        return ("P", draw(gen.lattice_point()))
    if kind == "V":
        return ("V", draw(gen.lattice_point()))
    if kind in ("L", "PL") and draw(st.integers(0, 5)) == 0:
        # through the origin and parallel to / containing a coordinate axis: offset 0 and a zero component, so nothing
        # but the remaining two components can fix a canonical orientation
        i = draw(st.integers(0, 2))
        w = [F(draw(st.sampled_from((1, -1, 2, -2, 3, -3)))), F(draw(st.sampled_from((1, -1, 2, 3, -3))))]
        w.insert(i, F(0))
        if kind == "PL":
            return ("PL", (F(0), F(0), F(0)), tuple(w))
        return ("L", (F(0), F(0), F(0)), tuple(w))
    if kind in ("L", "H", "S", "PL"):
        return draw(gen.free_flat(kind))
    if kind == "G":
        return draw(GB.polygon())
    return draw(GB.polyhedron())


def _intable(o, rep):
    """int representations need integer coordinates after the representation's arithmetic; fall back
    to float conversion is built into bridge.conv, so every rep is constructible"""
    return True


@st.composite
def family(draw, kind):
    o = draw(base_object(kind))
    k = draw(st.integers(3, 6 if kind != "K" else 4))
    reps = tuple(draw(rep_for(kind, o)) for _ in range(k))
    return ("FAM", kind, o, reps)


@st.composite
def near_miss(draw, kind):
    o = draw(base_object(kind))
    step = draw(st.sampled_from((F(1, 512), F(1, 64), F(1, 8), F(1))))
    d = draw(gen.direction(2))
    how = "displaced"
    if kind in ("P", "V"):
        o2 = (kind, X.add(o[1], X.mul(step, d)))
    elif kind == "L":
        if draw(st.booleans()):
            off = draw(gen.offset_from_line(o[2]))
            o2 = ("L", X.add(o[1], X.mul(step * 4, off)), o[2])
        else:
            how = "tilted"
            e = draw(gen.dir_not_parallel(o[2]))
            o2 = ("L", o[1], X.add(X.mul(draw(st.sampled_from((F(1), F(8), F(64)))), o[2]), e))
    elif kind == "H":
        m = draw(st.integers(0, 2))
        if m == 0:
            how = "origin-slid"
            o2 = ("H", X.add(o[1], X.mul(step, o[2])), o[2])
        elif m == 1:
            how = "opposite"
            o2 = ("H", o[1], X.mul(F(-1), o[2]))
        else:
            how = "tilted"
            e = draw(gen.dir_not_parallel(o[2]))
            o2 = ("H", o[1], X.add(X.mul(draw(st.sampled_from((F(1), F(8), F(64)))), o[2]), e))
    elif kind == "S":
        m = draw(st.integers(0, 1))
        if m == 0:
            how = "end-slid"
            o2 = ("S", o[1], X.add(o[2], X.mul(step, X.sub(o[2], o[1]))))
        else:
            o2 = ("S", X.add(o[1], X.mul(step, d)), o[2])
    elif kind == "PL":
        if draw(st.booleans()):
            n = tuple(F(c) for c in X.primitive(o[2]))
            o2 = ("PL", X.add(o[1], X.mul(step, n)), o[2])
        else:
            how = "tilted"
            e = draw(gen.dir_not_parallel(o[2]))
            o2 = ("PL", o[1], X.add(X.mul(draw(st.sampled_from((F(1), F(8), F(64)))), o[2]), e))
    elif kind == "G" and len(o[1]) >= 4 and draw(st.booleans()):
        # a polygon on a strict subset of the vertices (shares every vertex it has with o)
        how = "vertex-removed"
        pts = list(o[1])
        del pts[draw(st.integers(0, len(pts) - 1))]
        o2 = ("G", pts)
    elif kind == "G":
        how = "vertex-changed"
        pts = list(o[1])
        i = draw(st.integers(0, len(pts) - 1))
        m = len(pts)
        # move vertex i outward along the diagonal from the opposite side: stays convex and coplanar
        prev_, next_ = pts[i - 1], pts[(i + 1) % m]
        mid = X.mul(F(1, 2), X.add(prev_, next_))
        pts[i] = X.add(pts[i], X.mul(step, X.sub(pts[i], mid)))
        o2 = ("G", pts)
    elif kind == "K" and len(o[1]) >= 5 and draw(st.booleans()):
        how = "vertex-removed"
        pts = list(o[1])
        del pts[draw(st.integers(0, len(pts) - 1))]
        o2 = X.make_K(pts)
        assume(o2 is not None and len(o2[1]) == len(pts))
    else:
        how = "translated"
        o2 = X.translate(o, X.mul(step, d))
    # the near-miss object must itself be valid (e.g. a displaced end point must not land on the other end)
    if kind == "S":
        assume(tuple(o2[1]) != tuple(o2[2]))
    if kind in ("L", "H", "PL"):
        assume(not X.is_zero(o2[2]))
    if kind == "G":
        assume(len(X.make_G(o2[1])[1]) == len(o2[1]))
    rep1 = draw(rep_for(kind, o))
    rep2 = draw(rep_for(kind, o2))
    return ("NM", kind, o, o2, rep1, rep2, how)


@st.composite
def hash_quirk(draw, kind):
    """different objects whose coordinates differ only by -1 <-> -2 in one axis: hash(-1.0) == hash(-2.0) in
    CPython, so every rounded-float hash collides here; == must still tell the objects apart"""
    i = draw(st.integers(0, 2))
    j, k = [a for a in range(3) if a != i]

    def pt(a, b, c):
        q = [F(0)] * 3
        q[i], q[j], q[k] = F(a), F(b), F(c)
        return tuple(q)

    lo, hi = draw(st.sampled_from(((-1, -2), (-2, -1))))
    ab = [(draw(st.integers(-3, 3)), draw(st.integers(-3, 3))) for _ in range(2)]
    if draw(st.booleans()):
        # the other two coordinates in {0, 1}: then the mixed-product terms of the Point / Vector hash collide as well
        ab = [(draw(st.integers(0, 1)), draw(st.integers(0, 1))) for _ in range(2)]
    if kind == "P":
        o, o2 = ("P", pt(lo, *ab[0])), ("P", pt(hi, *ab[0]))
    elif kind == "V":
        o, o2 = ("V", pt(lo, *ab[0])), ("V", pt(hi, *ab[0]))
    elif kind in ("S", "L", "H"):
        assume(ab[0] != ab[1])
        p, q = pt(lo, *ab[0]), pt(lo, *ab[1])
        p2, q2 = pt(hi, *ab[0]), pt(hi, *ab[1])
        if kind == "S":
            o, o2 = ("S", p, q), ("S", p2, q2)
        else:
            o, o2 = (kind, p, X.sub(q, p)), (kind, p2, X.sub(q2, p2))
    elif kind == "PL":
        e = [F(0)] * 3
        e[i] = F(draw(st.sampled_from((1, -1, 2))))
        o, o2 = ("PL", pt(lo, *ab[0]), tuple(e)), ("PL", pt(hi, *ab[0]), tuple(e))
    elif kind == "G" and draw(st.booleans()):
        # one vertex on a coordinate axis at -1 versus -2, all other vertices shared: the two Points hash alike
        b_, c_, d_ = draw(st.integers(1, 3)), draw(st.integers(1, 3)), draw(st.integers(0, 3))
        rest = [pt(0, b_, 0), pt(c_, 0, 0)] + ([pt(0, -d_, 0)] if d_ else [])
        o = X.make_G([pt(lo, 0, 0)] + rest)
        o2 = X.make_G([pt(hi, 0, 0)] + rest)
        assume(len(o[1]) == len(o2[1]) == len(rest) + 1)
    elif kind == "K" and draw(st.booleans()):
        b_, c_, e_ = draw(st.integers(1, 3)), draw(st.integers(1, 3)), draw(st.integers(1, 3))
        rest = [pt(0, b_, 0), pt(c_, 0, 0), pt(0, 0, e_)] + ([pt(0, -1, 0)] if draw(st.booleans()) else [])
        o = X.make_K([pt(lo, 0, 0)] + rest)
        o2 = X.make_K([pt(hi, 0, 0)] + rest)
        assume(o is not None and o2 is not None and len(o[1]) == len(o2[1]) == len(rest) + 1)
    elif kind == "G":
        sh = draw(GB.shape2(3, 6))
        o = ("G", [pt(lo, a, b) for a, b in sh])
        o2 = ("G", [pt(hi, a, b) for a, b in sh])
        if draw(st.booleans()):
            o2 = ("G", list(reversed(o2[1])))
    else:
        w, h = draw(st.integers(1, 2)), draw(st.integers(1, 2))
        a0, b0 = ab[0]
        top = draw(st.sampled_from((0, 1, 3)))
        o = X.make_K([pt(z, a, b) for z in (lo, top) for a in (a0, a0 + w) for b in (b0, b0 + h)])
        o2 = X.make_K([pt(z, a, b) for z in (hi, top) for a in (a0, a0 + w) for b in (b0, b0 + h)])
    rep1 = draw(rep_for(kind, o))
    rep2 = draw(rep_for(kind, o2))
    return ("NM", kind, o, o2, rep1, rep2, "minus-one-vs-minus-two")


KINDS = ("P", "V", "L", "PL", "S", "H", "G", "K")


def strata(tier):
    q = tier == "quick"
    out = []
    for k in KINDS:
        n = (300 if q else 10000) if k != "K" else (60 if q else 2000)
        out.append(Stratum("family/" + k, "hyp", family(k), n))
        out.append(Stratum("nearmiss/" + k, "hyp", near_miss(k), n // 2))
        out.append(Stratum("hash-quirk/" + k, "hyp", hash_quirk(k), max(24, n // 6)))
    return out
