"""C07 - move translates the object in place and keeps it self-consistent (histories)."""
import copy
import math
from fractions import Fraction as F
from hypothesis import strategies as st, assume

from ..common import lib
from ..engine import Fail, Stratum, make_history_machine
from .. import exact as X, bridge as B, gen, genbody as GB, admit as A
from . import c09

ID = "C07"
WITNESS = ("eps", "round")
RULE = (
    "rule-based state machine per geometry type (Point, Line, Plane, Segment, HalfLine, ConvexPolygon, "
    "ConvexPolyhedron): an initial lattice object (built from float or, where integral, Python int coordinates) of a "
    "drawn provenance - fresh through any constructor form (incl. a Segment whose end point was replaced by item "
    "assignment), a deep copy, the receiver or the result of an earlier move, intersection(x, x), -x and -(-x) for "
    "planes and polygons, a polyhedron from flipped faces - then up to 12 steps drawn from move(v, continue on the "
    "receiver | continue on the returned object) with lattice v including zero, axis, equal-component vectors and "
    "far moves (|v| >= 7, back towards the origin), deepcopy, "
    "there-and-back (v then -v), and query(other) where the other operand (Point/Line/HalfLine/Segment/Plane/"
    "triangle/tetrahedron) is built from feature points of the exact model at its current position. After every "
    "step the receiver and the value just returned are compared with a freshly constructed object at the "
    "translated position: == both ways, equal hash, canonical derived state (Segment/HalfLine.line, polygon plane/"
    "centre/cycle, polyhedron vertex/edge/face sets, outward normals, centre - the C09 predicates against the "
    "translated exact model; general_form / point_normal / parametric of moved planes and lines), measures equal "
    "to the exact ones (1e-9); every query (intersection both orders, "
    "supported membership both directions, distance, angle, parallel, orthogonal) gives the same answer on "
    "receiver, returned object and fresh object, and intersection/membership also agree with the exact oracle. "
    "Objects that left the stage (earlier receivers, earlier returned objects, originals of deep copies) are kept: "
    "after every step each must still be self-consistent (a plane contains its own point and its general form does, "
    "cached lines pass through the end points, face planes / centres / point_set agree with the vertices, the body "
    "contains its own vertices) and - for Point, Segment, HalfLine, ConvexPolygon, ConvexPolyhedron, and for originals "
    "of deep copies of any type - must still be where it was (only the moves applied to an object translate it). "
    "non-trivial = history with >= 2 moves and >= 1 query on a receiver after it moved; distinct = distinct history."
)
ASSUMPTIONS = [
    "Lines and Planes returned by move may share their support with the receiver (the library's Planes and Lines do not own their constructor arguments, as C20 states): for those only self-consistency of earlier objects is asserted, not their position",
    "float coordinates; failing histories are reported only inside the admission domain (exact margins of every queried pair > 1e-3, run-time tolerance/rounding witness)",
]

KINDS = ("P", "L", "PL", "S", "H", "G", "K")
VECS = [tuple(F(c) for c in v) for v in [(0, 0, 0), (1, 0, 0), (0, -2, 0), (0, 0, 1), (1, 2, -1), (-2, 1, 3), (3, -1, -2), (0, 1, 1)]] + [
    (F(1, 2), F(-3, 2), F(1)), (F(-1, 4), F(1, 2), F(3, 4))
] + [tuple(F(c) for c in v) for v in [(1, 1, 1), (-2, -2, -2), (2, 2, -1), (-1, 3, 3), (1, -1, 0), (0, 0, -3)]] + [(F(1, 2), F(1, 2), F(1, 2)), (F(-3, 4), F(-3, 4), F(-3, 4))]

_COMMON = ("fresh", "fresh", "fresh", "copy", "moved", "moved-ret", "inter")
PROVS = {  # how the object a history starts from was obtained (constructor form, negation, copy, earlier move, intersection result)
    "P": _COMMON,
    "L": _COMMON + ("form1", "form2"),
    "PL": _COMMON + ("form1", "form2", "form3", "neg", "negneg"),
    "S": _COMMON + ("form1",),
    "H": _COMMON + ("form1",),
    "G": _COMMON + ("form1", "form2", "neg", "neg", "negneg"),
    "K": _COMMON + ("form1", "form1", "form2", "form3"),
}

BIG = [tuple(F(c) for c in v) for v in [(7, 0, 0), (-7, 0, 0), (0, 8, 0), (0, -8, 0), (0, 0, 7), (0, 0, -7), (6, -7, 0), (-6, 0, 7), (5, 6, -6)]]
BOUND = 16  # a far move is skipped when it would take the object outside |x| <= 16

IN_SUPPORT = {  # candidate kind -> container kinds for which `x in S` is supported
    "P": ("L", "H", "S", "PL", "G", "K"),
    "S": ("L", "H", "S", "PL", "G", "K"),
    "H": ("L", "H", "PL"),
    "L": ("PL",),
    "G": ("PL", "K"),
}
DIST = {("P", "P"), ("P", "L"), ("L", "P"), ("L", "L"), ("P", "PL"), ("PL", "P"), ("L", "PL"), ("PL", "L")}
ANG = {("L", "L"), ("L", "PL"), ("PL", "L"), ("PL", "PL")}


def feature_points(o):
    """deterministic list of exact points related to descriptor o"""
    k = o[0]
    if k == "P":
        p = o[1]
        return [p, X.add(p, (1, 0, 0)), X.add(p, (0, F(1, 2), 1)), X.add(p, (-1, 2, 0)), X.add(p, (2, 1, -2))]
    if k in ("L", "H", "S"):
        d = gen.carrier_dir(o)
        u, v = X.perp2(d)
        on = [X.add(o[1], X.mul(t, d)) for t in (F(0), F(1), F(1, 2), F(-1), F(2), F(1, 4))]
        off = [X.add(on[2], u), X.add(on[0], X.mul(F(1, 2), v)), X.add(on[4], X.add(u, v)), X.add(on[3], X.mul(F(-1), u))]
        return on + off
    if k == "PL":
        u, v = X.perp2(o[2])
        n = tuple(F(c) for c in X.primitive(o[2]))
        p = o[1]
        on = [p, X.add(p, u), X.add(p, v), X.add(p, X.add(X.mul(F(-1, 2), u), v)), X.add(p, X.sub(u, v))]
        off = [X.add(on[0], n), X.add(on[1], X.mul(F(-1, 2), n)), X.add(on[3], X.mul(2, n)), X.add(on[2], X.mul(F(-1), n))]
        return on + off
    pts = list(o[1])
    edges = X.edges_of(o)
    mids = [X.mul(F(1, 2), X.add(a, b)) for a, b in edges[:6]]
    c = X.centroid(pts)
    c = tuple(F(round(x * 4), 4) for x in c)  # dyadic point near the centroid (inside for our bodies or not: classified exactly)
    far = [X.add(pts[0], X.sub(pts[0], c)), X.add(pts[-1], X.mul(F(1, 2), X.sub(pts[-1], c))), X.add(c, (7, 5, -6))]
    beyond = [X.add(b, X.mul(F(1, 2), X.sub(b, a))) for a, b in edges[:3]]
    return pts + mids + [c] + far + beyond


def derive_other(model, spec):
    """other operand from a spec (okind, i, j, k, l) of indices into feature_points(model); None if degenerate"""
    ok, i, j, k, l = spec
    fp = feature_points(model)
    m = len(fp)
    a, b, c, d = fp[i % m], fp[j % m], fp[k % m], fp[l % m]
    if ok == "P":
        return ("P", a)
    if tuple(a) == tuple(b):
        return None
    if ok == "S":
        return ("S", a, b)
    if ok in ("L", "H"):
        return (ok, a, X.sub(b, a))
    n = X.cross(X.sub(b, a), X.sub(c, a))
    if X.is_zero(n):
        return None
    if ok == "PL":
        return ("PL", a, n)
    if ok == "G":
        return ("G", [a, b, c])
    if ok == "K":
        if X.dot(n, X.sub(d, a)) == 0:
            return None
        return X.make_K([a, b, c, d])
    raise ValueError(ok)


def far_vector(model, vi):
    """a move farther than the object is wide (anything remembered about the old place is then elsewhere), directed
    back towards the origin so that the object stays inside the coordinate range; None = skip"""
    v = BIG[vi % len(BIG)]
    ext = list(model[1]) if model[0] in ("G", "K") else [model[1]]
    c = [sum(q[i] for q in ext) / len(ext) for i in range(3)]
    if any(v[i] * c[i] > 0 for i in range(3)):
        v = X.mul(F(-1), v)
    if any(abs(c[i] + v[i]) > BOUND - 6 for i in range(3)):
        return None
    return v


def _num_eq(x, y, tol=1e-9):
    return abs(x - y) <= tol * max(1.0, abs(x), abs(y))


class Executor(object):
    def __init__(self, init):
        # init is a descriptor, or (descriptor, "i"|"f") to build receiver, fresh objects and move vectors from
        # Python ints wherever the exact value is integral (the documentation's examples use ints)
        self.ct = float
        self.prov = "fresh"
        if isinstance(init[0], tuple):
            self.ct = {"i": int, "f": float}[init[1]]
            if len(init) > 2:
                self.prov = init[2]
            init = init[0]
        self.model = init
        self.kind = init[0]
        self.cur = None
        self.ret = None
        self.bystanders = []  # earlier receivers / returned objects: only their self-consistency is observed
        self.moves = 0
        self.queries_after_move = 0
        self.facts = {"kind": self.kind}

    # ---- helpers
    def guard(self, name, fn):
        s, v = B.call(fn)
        if s == "raise":
            raise Fail("%s [%s] raises %s" % (name, self.kind, B.exc_sig(v)), {"error": repr(v)}, self.facts)
        return v

    def fresh(self):
        return B.build(self.model, self.ct)

    def initial(self):
        """the object the history starts from, by provenance: every variant denotes the model's set"""
        G = lib()
        pv = self.prov
        if pv.startswith("form"):
            return B.build(self.model, self.ct, int(pv[4:]))
        o = self.fresh()
        if pv == "copy":
            return self.guard("deepcopy", lambda: copy.deepcopy(o))
        if pv == "neg":
            self.also = o  # the object it was negated from stays around (it may share its support with the negation)
            return self.guard("negation", lambda: -o)
        if pv == "negneg":
            self.also = o
            return self.guard("negation", lambda: -(-o))
        if pv in ("moved", "moved-ret"):
            v = VECS[4]
            base = B.build(X.translate(self.model, X.mul(F(-1), v)), self.ct)
            r = self.guard("move", lambda: base.move(B.vec(v, self.ct)))
            self.also = r if pv == "moved" else base
            return base if pv == "moved" else r
        if pv == "inter":
            o2 = self.fresh()
            r = self.guard("intersection(x, x)", lambda: G.intersection(o, o2))
            if type(r) is not type(o):
                raise Fail("intersection(x, x) [%s] is a %s" % (self.kind, type(r).__name__), {"model": self.model}, self.facts)
            return r
        return o

    def start(self):
        self.facts["provenance"] = self.prov
        self.also = None
        self.cur = self.initial()
        self.retire(self.also)
        self.invariant("initial")

    def retire(self, o, model=None, copied=False):
        """o leaves the stage at the position `model` (default: the current one).  Later moves act on other objects;
        Point, Segment, HalfLine, ConvexPolygon and ConvexPolyhedron hand back freshly constructed objects from move
        (and a deep copy of anything is independent), so a retired object of these kinds is itself only translated by
        the moves applied to it, i.e. it stays where it was.  A Line or Plane returned by move may share its support
        with the receiver (Planes and Lines do not own their constructor arguments): only self-consistency is
        observed for those."""
        stays = copied or self.kind not in ("L", "PL")
        if o is None or any(o is b[0] for b in self.bystanders) or (o is self.cur and not stays):
            return
        self.bystanders.append((o, model if model is not None else self.model, stays))
        del self.bystanders[:-4]

    def targets(self):
        t = [("receiver", self.cur)]
        if self.ret is not None and self.ret is not self.cur:
            t.append(("returned", self.ret))
        return t

    # ---- steps
    def apply(self, step):
        name = step[0].rstrip("23")
        G = lib()
        if name in ("move", "farmove"):
            vi, follow = step[1], step[2]
            v = VECS[vi % len(VECS)] if name == "move" else BIG[vi % len(BIG)]
            if name == "farmove":
                v = far_vector(self.model, vi)
                if v is None:
                    return
            self.retire(self.ret)
            self.ret = self.guard("move", lambda: self.cur.move(B.vec(v, self.ct)))
            self.model = X.translate(self.model, v)
            self.moves += 1
            self.invariant("after move")
            if follow:
                old = self.cur
                self.cur = self.ret
                self.ret = None
                self.retire(old)
        elif name == "deepcopy":
            old = self.cur
            self.cur = self.guard("deepcopy", lambda: copy.deepcopy(self.cur))
            self.retire(self.ret)
            self.ret = None
            self.retire(old, copied=True)
            self.invariant("after deepcopy")
        elif name == "back":
            v = VECS[step[1] % len(VECS)]
            self.retire(self.ret)
            self.retire(self.guard("move", lambda: self.cur.move(B.vec(v, self.ct))), X.translate(self.model, v))
            self.ret = self.guard("move back", lambda: self.cur.move(B.vec(X.mul(F(-1), v), self.ct)))
            self.moves += 2
            self.invariant("after move by v and -v")
        elif name == "query":
            other = derive_other(self.model, step[1:6])
            if other is not None:
                self.query(other)
        else:
            raise ValueError(name)

    # ---- invariant
    def invariant(self, when):
        G = lib()
        fresh = self.fresh()
        model = self.model
        k = self.kind
        for who, o in self.targets():
            tag = "%s %s" % (who, when)
            if type(o) is not type(fresh):
                raise Fail("%s: type changed to %s" % (tag, type(o).__name__), {}, self.facts)
            e1 = self.guard("==", lambda: o == fresh)
            e2 = self.guard("==", lambda: fresh == o)
            if e1 is not True or e2 is not True:
                raise Fail("%s [%s]: not equal to a fresh object at the translated position" % (tag, k), {"model": model, "got": B.denote(o)}, self.facts)
            if self.guard("hash", lambda: hash(o)) != self.guard("hash", lambda: hash(fresh)):
                raise Fail("%s [%s]: hash differs from a fresh object at the translated position" % (tag, k), {"model": model}, self.facts)
            why = B.same_set(B.fdesc(model) if k != "K" else B.fdesc(model), B.denote(o))
            if why:
                raise Fail("%s [%s]: does not denote the translated set: %s" % (tag, k, why), {"model": model, "got": B.denote(o)}, self.facts)
            if k in ("S", "H"):
                ln = ("L", model[1], gen.carrier_dir(model))
                why = B.same_set(B.fdesc(ln), B.denote(o.line))
                if why:
                    raise Fail("%s [%s]: cached .line is stale: %s" % (tag, k, why), {"line": B.denote(o.line)}, self.facts)
            if k == "PL":
                # the equation forms of a moved plane describe the moved plane
                gf = self.guard("general_form", o.general_form)
                if not (isinstance(gf, (tuple, list)) and len(gf) == 4 and all(isinstance(c_, (int, float)) and not isinstance(c_, bool) for c_ in gf)):
                    raise Fail("%s [PL]: general_form() is not four numbers" % tag, {"got": repr(gf)}, self.facts)
                nf = (float(gf[0]), float(gf[1]), float(gf[2]))
                u_, v_ = X.perp2(model[2])
                for q in (model[1], X.add(model[1], u_), X.add(model[1], v_)):
                    if abs(B._fdot(nf, X.fl(q)) - float(gf[3])) > 1e-9 * max(1.0, abs(float(gf[3]))):
                        raise Fail("%s [PL]: general_form() is not the equation of the translated plane" % tag, {"got": repr(gf)}, self.facts)
                pn = self.guard("point_normal", o.point_normal)
                pu = self.guard("parametric", o.parametric)
                for nm, sup in (("point_normal", pn[0]), ("parametric", pu[0])):
                    w = X.sub(tuple(F(float(c)) for c in sup), model[1])
                    if abs(float(X.dot(w, model[2]))) > 1e-9 * max(1.0, A._len(model[2])):
                        raise Fail("%s [PL]: %s() support point is not on the translated plane" % (tag, nm), {"got": B._v3(sup)}, self.facts)
                if not B._parallel(B._v3(pn[1]), X.fl(model[2])):
                    raise Fail("%s [PL]: point_normal() normal changed" % tag, {}, self.facts)
                for vv in (pu[1], pu[2]):
                    if abs(B._fdot(B._v3(vv), X.fl(model[2]))) > 1e-9 * B._fnorm(B._v3(vv)) * A._len(model[2]):
                        raise Fail("%s [PL]: parametric() vector is not parallel to the plane" % tag, {}, self.facts)
            if k == "L":
                su = self.guard("parametric", o.parametric)
                why = B.same_set(B.fdesc(model), ("L", B._v3(su[0]), B._v3(su[1])))
                if why:
                    raise Fail("%s [L]: parametric() does not describe the translated line: %s" % (tag, why), {}, self.facts)
            if k == "S":
                ref = X.seg_len(model[1], model[2])
                if not _num_eq(self.guard("length", o.length), ref):
                    raise Fail("%s [S]: length changed" % tag, {"expected": ref}, self.facts)
            if k == "G":
                c09.check_polygon_obj(o, model[1], "%s [G]" % tag, self.facts, 1e-9)
                cp = B._xyz(o.center_point)
                cf = B._xyz(fresh.center_point)
                if not B._close(cp, cf, 1e-9):
                    raise Fail("%s [G]: center_point differs from a fresh polygon's" % tag, {"got": cp, "fresh": cf}, self.facts)
                pl = ("PL", model[1][0], X.poly_normal(model[1]))
                why = B.same_set(B.fdesc(pl), B.denote(o.plane))
                if why:
                    raise Fail("%s [G]: cached plane is stale: %s" % (tag, why), {"plane": B.denote(o.plane)}, self.facts)
                if not _num_eq(self.guard("area", o.area), X.polygon_area(model[1])) or not _num_eq(self.guard("length", o.length), X.perimeter(model)):
                    raise Fail("%s [G]: measures changed" % tag, {}, self.facts)
            if k == "K":
                c09.check_polyhedron_obj(o, model, "%s [K]" % tag, self.facts, 1e-9)
                for f in o.convex_polygons:
                    pts = [B._xyz(p) for p in f.points]
                    c = B._xyz(f.center_point)
                    m = len(pts)
                    mean = tuple(sum(p[i] for p in pts) / m for i in range(3))
                    if not B._close(c, mean, 1e-9):
                        raise Fail("%s [K]: a face's center_point is stale" % tag, {"got": c, "expected": mean}, self.facts)
                    pn = B.denote(f.plane)
                    w = (pts[0][0] - pn[1][0], pts[0][1] - pn[1][1], pts[0][2] - pn[1][2])
                    if abs(B._fdot(w, pn[2])) > 1e-9:
                        raise Fail("%s [K]: a face's plane is stale" % tag, {}, self.facts)
                vol = float(X.volume(model))
                if not _num_eq(self.guard("volume", o.volume), vol) or not _num_eq(self.guard("volume()", lambda: G.volume(o)), vol):
                    raise Fail("%s [K]: volume changed" % tag, {"expected": vol, "got": o.volume()}, self.facts)
                if not _num_eq(self.guard("area", o.area), X.surface_area(model)) or not _num_eq(self.guard("length", o.length), X.perimeter(model)):
                    raise Fail("%s [K]: area/length changed" % tag, {}, self.facts)

        for b, bmodel, stays in (self.bystanders if when != "after query" else ()):
            tag = "an earlier receiver/returned object (%s)" % when
            self.self_consistent(b, tag)
            if stays:
                why = B.same_set(B.fdesc(bmodel), B.denote(b))
                if why:
                    raise Fail("%s [%s]: moved although only another object was moved: %s" % (tag, k, why), {"expected": bmodel, "got": B.denote(b)}, self.facts)

    def self_consistent(self, o, tag):
        """what must hold for any live object wherever it is: its derived public state agrees with its defining
        public state (nothing is assumed about the position of objects that may alias the receiver)"""
        G = lib()
        k = self.kind

        def plane_ok(pl, pts, what):
            n = B._v3(pl.n)
            q = B._xyz(pl.p)
            for pnt in pts:
                w = (pnt[0] - q[0], pnt[1] - q[1], pnt[2] - q[2])
                if abs(B._fdot(w, n)) > 1e-9 * max(1.0, B._fnorm(n)):
                    raise Fail("%s [%s]: %s" % (tag, k, what), {"plane": B.denote(pl), "point": pnt}, self.facts)

        def polygon_ok(g, what):
            pts = [B._xyz(p) for p in g.points]
            plane_ok(g.plane, pts, what + ": a vertex is off the polygon's own plane")
            m = len(pts)
            mean = tuple(sum(p[i] for p in pts) / m for i in range(3))
            if not B._close(B._xyz(g.center_point), mean, 1e-9):
                raise Fail("%s [%s]: %s: center_point is not the centre of its own vertices" % (tag, k, what), {"got": B._xyz(g.center_point), "expected": mean}, self.facts)

        if k == "PL":
            gf = self.guard("general_form", o.general_form)
            if not (isinstance(gf, (tuple, list)) and len(gf) == 4 and all(isinstance(c_, (int, float)) and not isinstance(c_, bool) for c_ in gf)):
                raise Fail("%s [PL]: general_form() is not four numbers" % tag, {"got": repr(gf)}, self.facts)
            q = B._xyz(o.p)
            d = float(gf[3])
            if abs(float(gf[0]) * q[0] + float(gf[1]) * q[1] + float(gf[2]) * q[2] - d) > 1e-9 * max(1.0, abs(d)):
                raise Fail("%s [PL]: general_form() does not contain the plane's own point" % tag, {"general_form": repr(gf), "p": q}, self.facts)
            if self.guard("in", lambda: o.p in o) is not True:
                raise Fail("%s [PL]: the plane does not contain its own point" % tag, {"p": q}, self.facts)
            pn = self.guard("point_normal", o.point_normal)
            if self.guard("in", lambda: G.Point(pn[0]) in o) is not True:
                raise Fail("%s [PL]: the plane does not contain the point of its point_normal() form" % tag, {}, self.facts)
            pu = self.guard("parametric", o.parametric)
            if self.guard("in", lambda: G.Point(pu[0]) in o) is not True:
                raise Fail("%s [PL]: the plane does not contain the point of its parametric() form" % tag, {}, self.facts)
            twin = self.guard("Plane(p, n)", lambda: G.Plane(copy.deepcopy(o.p), copy.deepcopy(o.n)))
            if self.guard("==", lambda: o == twin) is not True or self.guard("hash", lambda: hash(o)) != self.guard("hash", lambda: hash(twin)):
                raise Fail("%s [PL]: the plane differs from / hashes unlike a plane built from its own point and normal" % tag, {}, self.facts)
        elif k == "L":
            twin = self.guard("Line(sv, dv)", lambda: G.Line(copy.deepcopy(o.sv), copy.deepcopy(o.dv)))
            if self.guard("==", lambda: o == twin) is not True or self.guard("hash", lambda: hash(o)) != self.guard("hash", lambda: hash(twin)):
                raise Fail("%s [L]: the line differs from / hashes unlike a line built from its own support and direction" % tag, {}, self.facts)
            su = self.guard("parametric", o.parametric)
            why = B.same_set(("L", B._v3(o.sv), B._v3(o.dv)), ("L", B._v3(su[0]), B._v3(su[1])))
            if why:
                raise Fail("%s [L]: parametric() does not describe the line's own support and direction: %s" % (tag, why), {}, self.facts)
        elif k == "P":
            twin = G.Point(o.x, o.y, o.z)
            if self.guard("==", lambda: o == twin) is not True or self.guard("hash", lambda: hash(o)) != self.guard("hash", lambda: hash(twin)):
                raise Fail("%s [P]: the point differs from / hashes unlike a point with its own coordinates" % tag, {}, self.facts)
        elif k in ("S", "H"):
            a = B._xyz(o.start_point if k == "S" else o.point)
            if k == "S":
                b = B._xyz(o.end_point)
                d = (b[0] - a[0], b[1] - a[1], b[2] - a[2])
            else:
                d = B._v3(o.vector)
            why = B.same_set(("L", a, d), B.denote(o.line))
            if why:
                raise Fail("%s [%s]: cached .line does not pass through the object's own points: %s" % (tag, k, why), {"line": B.denote(o.line)}, self.facts)
            ends = (o.start_point, o.end_point) if k == "S" else (o.point,)
            for e_ in ends:
                if self.guard("in", lambda: e_ in o) is not True:
                    raise Fail("%s [%s]: the object does not contain its own end point" % (tag, k), {}, self.facts)
            twin = self.guard("constructor", lambda: G.Segment(o.start_point, o.end_point) if k == "S" else G.HalfLine(o.point, o.vector))
            if self.guard("==", lambda: o == twin) is not True or self.guard("hash", lambda: hash(o)) != self.guard("hash", lambda: hash(twin)):
                raise Fail("%s [%s]: the object differs from / hashes unlike one built from its own end points" % (tag, k), {}, self.facts)
        elif k == "G":
            polygon_ok(o, "polygon")
            for v_ in o.points:
                if self.guard("in", lambda: v_ in o) is not True:
                    raise Fail("%s [G]: the polygon does not contain its own vertex" % tag, {"vertex": B._xyz(v_)}, self.facts)
            twin = self.guard("ConvexPolygon(points)", lambda: G.ConvexPolygon(tuple(o.points)))
            if self.guard("==", lambda: o == twin) is not True or self.guard("hash", lambda: hash(o)) != self.guard("hash", lambda: hash(twin)):
                raise Fail("%s [G]: the polygon differs from / hashes unlike one built from its own vertices" % tag, {}, self.facts)
        elif k == "K":
            allp = set()
            for f in o.convex_polygons:
                polygon_ok(f, "face")
                for v_ in f.points:
                    allp.add(tuple(round(c, 9) + 0.0 for c in B._xyz(v_)))
            have = set(tuple(round(c, 9) + 0.0 for c in B._xyz(v_)) for v_ in o.point_set)
            if allp != have:
                raise Fail("%s [K]: point_set is not the set of the faces' vertices" % tag, {"faces": sorted(allp), "point_set": sorted(have)}, self.facts)
            for v_ in o.point_set:
                if self.guard("in", lambda: v_ in o) is not True:
                    raise Fail("%s [K]: the polyhedron does not contain its own vertex" % tag, {"vertex": B._xyz(v_)}, self.facts)
            twin = self.guard("ConvexPolyhedron(faces)", lambda: G.ConvexPolyhedron(tuple(o.convex_polygons)))
            if self.guard("==", lambda: o == twin) is not True or self.guard("hash", lambda: hash(o)) != self.guard("hash", lambda: hash(twin)):
                raise Fail("%s [K]: the polyhedron differs from / hashes unlike one built from its own faces" % tag, {}, self.facts)

    # ---- queries
    def query(self, other):
        G = lib()
        k = self.kind
        ok = other[0]
        if self.moves:
            self.queries_after_move += 1
        self.facts["other"] = other
        fresh = self.fresh()
        tg = self.targets() + [("fresh", fresh)]
        oo = {name: B.build(other) for name, _ in tg}  # a separate other per target (queries must not interact)
        r_exact = X.inter(self.model, other)
        e = B.fdesc(r_exact)
        pair = "%s,%s" % (k, ok)
        for name, o in tg:
            for nm, fn in (("intersection(x,other)", lambda: G.intersection(o, oo[name])), ("intersection(other,x)", lambda: G.intersection(oo[name], o))):
                val = self.guard("%s on %s" % (nm, name), fn)
                why = B.same_set(e, B.denote(val))
                if why:
                    raise Fail("%s on the %s object [%s] wrong after moves: %s" % (nm, name, pair, why), {"expected": e, "got": B.denote(val), "model": self.model}, self.facts)
            if k != "P" and ok in IN_SUPPORT and k in IN_SUPPORT[ok]:
                want = X.subset(other, self.model)
                got = self.guard("in on %s" % name, lambda: oo[name] in o)
                if bool(got) is not want:
                    raise Fail("other in %s object [%s in %s] is %s, exact containment %s" % (name, ok, k, bool(got), want), {"model": self.model}, self.facts)
            if ok != "P" and k in IN_SUPPORT and ok in IN_SUPPORT[k]:
                want = X.subset(self.model, other)
                got = self.guard("in on %s" % name, lambda: o in oo[name])
                if bool(got) is not want:
                    raise Fail("%s object in other [%s in %s] is %s, exact containment %s" % (name, k, ok, bool(got), want), {"model": self.model}, self.facts)
            if (k, ok) in DIST:
                ref = math.sqrt(float(X.dist2(self.model, other)))
                for nm, fn in (("distance(x,other)", lambda: G.distance(o, oo[name])), ("distance(other,x)", lambda: G.distance(oo[name], o))):
                    d = self.guard("%s on %s" % (nm, name), fn)
                    if not _num_eq(d, ref):
                        raise Fail("%s on the %s object [%s] wrong after moves" % (nm, name, pair), {"expected": ref, "got": d}, self.facts)
                if k in ("L", "PL"):
                    d = self.guard("x.distance(other) on %s" % name, lambda: o.distance(oo[name]))
                    if not _num_eq(d, ref):
                        raise Fail("x.distance(other) on the %s object [%s] wrong after moves" % (name, pair), {"expected": ref, "got": d}, self.facts)
            if (k, ok) in ANG:
                u, v = self.model[2], other[2]
                ang = X.acute_angle(u, v)
                ref = ang if k == ok else math.pi / 2 - ang
                a = self.guard("angle on %s" % name, lambda: G.angle(o, oo[name]))
                if abs(a - ref) > 1e-7:
                    raise Fail("angle on the %s object [%s] wrong after moves" % (name, pair), {"expected": ref, "got": a}, self.facts)
                par = X.is_zero(X.cross(u, v)) if k == ok else X.dot(u, v) == 0
                orth = X.dot(u, v) == 0 if k == ok else X.is_zero(X.cross(u, v))
                if bool(self.guard("parallel", lambda: G.parallel(o, oo[name]))) is not par:
                    raise Fail("parallel on the %s object [%s] wrong after moves" % (name, pair), {}, self.facts)
                if bool(self.guard("orthogonal", lambda: G.orthogonal(o, oo[name]))) is not orth:
                    raise Fail("orthogonal on the %s object [%s] wrong after moves" % (name, pair), {}, self.facts)
        self.facts.pop("other", None)
        # queries must not have disturbed anything
        self.invariant("after query")


def run_history(case):
    _h, init, steps = case
    ex = Executor(init)
    ex.start()
    for s in steps:
        ex.apply(s)
    return ex


def _desc(init):
    return init[0] if isinstance(init[0], tuple) else init


def account(case, ctx):
    _h, init, steps = case
    if isinstance(init[0], tuple):
        ctx.cls("ctype:" + init[1])
        if len(init) > 2:
            ctx.cls("provenance:" + init[2])
    init = _desc(init)
    moves = 0
    q_after = 0
    steps = [(s[0].rstrip("23"),) + tuple(s[1:]) for s in steps]
    for s in steps:
        if s[0] in ("move", "farmove"):
            moves += 1
        elif s[0] == "back":
            moves += 2
        elif s[0] == "query" and moves:
            q_after += 1
    nt = moves >= 2 and q_after >= 1
    cls = "%s/moves%s/queries-after-move%s" % (init[0], min(moves, 3), min(q_after, 2))
    ctx.cls(cls)
    ctx.cls("kind:" + init[0])
    for s in steps:
        ctx.cls("step:" + s[0] + ("/follow" if s[0] in ("move", "farmove") and s[2] else ""))
        if s[0] == "query":
            ctx.cls("query-other:" + s[1])
    if nt:
        ctx.nontrivial(case)
    ctx.sample(cls, case)


def check(case, ctx):
    account(case, ctx)
    run_history(case)


def admit(case, fail):
    """every queried pair along the history must be inside the margin domain"""
    _h, init, steps = case
    model = _desc(init)
    for s in steps:
        s = (s[0].rstrip("23"),) + tuple(s[1:])
        if s[0] == "move":
            model = X.translate(model, VECS[s[1] % len(VECS)])
        elif s[0] == "farmove":
            fv = far_vector(model, s[1])
            if fv is not None:
                model = X.translate(model, fv)
        elif s[0] == "query":
            other = derive_other(model, s[1:6])
            if other is None:
                continue
            r = X.inter(model, other)
            if model[0] in X.FLAT and other[0] in X.FLAT:
                why = A.flat_case_margin(model, other, r).reason()
            else:
                why = A.body_case_margin(model, other, r).reason()
            if why:
                return why
    return None


def machine_for(kind):
    def payload(ctx):
        import sys

        prop = sys.modules[__name__]
        prov = st.sampled_from(PROVS[kind])
        if kind in ("G", "K"):
            init = st.tuples(GB.body(kind), st.sampled_from(("f", "f", "i")), prov)
        else:
            init = st.tuples(gen.free_flat(kind), st.sampled_from(("f", "f", "i")), prov)
        qargs = (
            st.sampled_from(("P", "L", "H", "S", "PL", "G", "G", "K", "K") if kind in ("G", "K") else ("P", "P", "L", "H", "S", "S", "PL", "PL", "G", "K")),
            st.integers(0, 30), st.integers(0, 30), st.integers(0, 30), st.integers(0, 30),
        )
        # rules are chosen uniformly: moves and queries get two rules each so that deepcopy is 1/7
        rules = {
            "move": (st.integers(0, len(VECS) - 1), st.booleans()),
            "move2": (st.integers(0, len(VECS) - 1), st.booleans()),
            "deepcopy": (),
            "back": (st.integers(0, len(VECS) - 1),),
            "farmove": (st.integers(0, len(BIG) - 1), st.booleans()),
            "query": qargs,
            "query2": qargs,
            "query3": qargs,
        }
        return make_history_machine(ctx, prop, rules, init, step_count=12)

    return payload


def strata(tier):
    q = tier == "quick"
    n = {"P": 200, "L": 200, "PL": 200, "S": 200, "H": 200, "G": 200, "K": 130}
    mult = 1 if q else 25
    return [Stratum("history/" + k, "machine", machine_for(k), n[k] * mult) for k in KINDS]
