"""C04 - intersection is total, symmetric and typed over all 49 ordered operand type pairs."""
from fractions import Fraction as F
from hypothesis import strategies as st, assume

from ..common import lib
from ..engine import Fail, Stratum
from .. import exact as X, bridge as B, gen, genbody as GB, admit as A
from . import c02, c03

ID = "C04"
WITNESS = ("eps", "round")
RULE = (
    "all 49 ordered pairs of {Point, Line, Plane, Segment, HalfLine, ConvexPolygon, ConvexPolyhedron} are "
    "enumerated (one group of strata per ordered pair); operands come from the relation-recipe generators of "
    "C01 (flat/flat), C02 (flat through feature points of a body) and C03 (related bodies), generic and "
    "degenerate. For each case: intersection(a,b), intersection(b,a) and a.intersection(b) must not raise; "
    "their float denotations must denote the same set (library against itself, 1e-7); the result type must be "
    "in the documented table for the unordered pair (docs/source/example_operation.rst, 28 rows; the exact "
    "oracle's kind is also required to be in that table, validating the transcription); with None in either or "
    "both positions the result is None. non-trivial = non-empty result; distinct = distinct ordered operand pair; "
    "every one of the 49 cells must contain non-trivial cases (generator health check)."
)
ASSUMPTIONS = [
    "symmetry and method-form agreement are judged on denotations (kind, vertex set / support+direction within 1e-7)",
    "failing cases are reported only inside the admission domain (exact margins > 1e-3, run-time tolerance/rounding witness)",
]

KINDS = ("P", "L", "PL", "S", "H", "G", "K")
FLAT = ("P", "L", "PL", "S", "H")
BODY = ("G", "K")

_T = {
    ("P", "P"): "P", ("P", "L"): "P", ("P", "PL"): "P", ("P", "S"): "P", ("P", "G"): "P", ("P", "K"): "P", ("P", "H"): "P",
    ("L", "L"): "P L", ("L", "PL"): "P L", ("L", "S"): "P S", ("L", "G"): "P S", ("L", "K"): "P S", ("L", "H"): "P H",
    ("PL", "PL"): "L PL", ("PL", "S"): "P S", ("PL", "G"): "P S G", ("PL", "K"): "P S G", ("PL", "H"): "P H",
    ("S", "S"): "P S", ("S", "G"): "P S", ("S", "K"): "P S", ("S", "H"): "P S",
    ("G", "G"): "P S G", ("G", "K"): "P S G", ("G", "H"): "P S",
    ("K", "K"): "P S G K", ("K", "H"): "P S",
    ("H", "H"): "P S H",
}
DOC = {}
for (x, y), v in _T.items():
    DOC[(x, y)] = DOC[(y, x)] = set(v.split()) | {"None"}
assert len(_T) == 28


def check(case, ctx):
    G = lib()
    a, b, tag = case[0], case[1], case[2]
    var = case[3] if len(case) > 3 else B.DEFAULT_VAR
    r = X.inter(a, b)
    pair = "%s-%s" % (a[0], b[0])
    cls = "%s:%s" % (pair, B.kind_name(r))
    ctx.cls(cls)
    ctx.note("cell:" + pair)
    if r is not None:
        ctx.nontrivial((a, b))
        ctx.note("cell-nontrivial:" + pair)
    ctx.sample(cls, case, B.kind_name(r))
    facts = {"pair": pair, "recipe": tag, "expected": B.kind_name(r)}
    if B.kind_name(r) not in DOC[(a[0], b[0])]:
        from ..common import HarnessError

        raise HarnessError("exact oracle kind %s not in documented table for %s: transcription error" % (B.kind_name(r), pair))
    oa, ob = B.build_var(a, b, var)
    res = {}
    calls = [("intersection(a,b)", G.intersection, (oa, ob)), ("intersection(b,a)", G.intersection, (ob, oa))]
    if a[0] != "P":
        calls.append(("a.intersection(b)", oa.intersection, (ob,)))
    if b[0] != "P":
        calls.append(("b.intersection(a)", ob.intersection, (oa,)))
    for name, fn, args in calls:
        s, val = B.call(fn, *args)
        if s == "raise":
            raise Fail("%s [%s] raises %s" % (name, pair, B.exc_sig(val)), {"error": repr(val)}, facts)
        d = B.denote(val)
        if B.kind_name(d) not in DOC[(a[0], b[0])]:
            raise Fail("%s [%s] returns undocumented type %s" % (name, pair, type(val).__name__), {"got": d}, facts)
        res[name] = d
    base = res["intersection(a,b)"]
    for name, d in res.items():
        if name == "intersection(a,b)":
            continue
        why = B.same_set(base, d)
        if why:
            raise Fail("%s [%s] differs from intersection(a,b): %s" % (name, pair, why), {"ab": base, "other": d}, facts)
    for name, fn in (
        ("intersection(None,b)", lambda: G.intersection(None, ob)),
        ("intersection(a,None)", lambda: G.intersection(oa, None)),
        ("intersection(None,None)", lambda: G.intersection(None, None)),
    ) + ((("a.intersection(None)", lambda: oa.intersection(None)),) if a[0] != "P" else ()):
        s, val = B.call(fn)
        if s == "raise":
            raise Fail("%s [%s] raises %s" % (name, pair, B.exc_sig(val)), {"error": repr(val)}, facts)
        if val is not None:
            raise Fail("%s [%s] is not None" % (name, pair), {"got": repr(val)}, facts)


def admit(case, fail):
    a, b = case[0], case[1]
    r = X.inter(a, b)
    if a[0] in X.FLAT and b[0] in X.FLAT:
        return A.flat_case_margin(a, b, r).reason()
    return A.body_case_margin(a, b, r).reason()


def health(m, tier):
    missing = []
    for ka in KINDS:
        for kb in KINDS:
            if m["notes"].get("cell-nontrivial:%s-%s" % (ka, kb), 0) < 1:
                missing.append("%s-%s" % (ka, kb))
    if missing:
        return "cells without a non-trivial case: %s" % ",".join(missing)
    return None


@st.composite
def flat_case(draw, ka, kb, rec):
    a, b = draw(gen.flat_pair(ka, kb, rec))
    return (a, b, rec)


@st.composite
def swap(draw, strat, tagged=True):
    t = draw(strat)
    return (t[1], t[0], t[2])


FB_RECIPES = {
    "P": [("V",), ("E",), ("F",), ("I",), ("X",), ("F+",)],
    "L": [("V", "V"), ("V", "X"), ("E", "I"), ("F", "F+"), ("I", "X"), ("X", "X"), ("E+", "V")],
    "H": [("V", "V"), ("V", "X"), ("I", "X"), ("X", "I"), ("F", "F+"), ("E", "E"), ("X", "V")],
    "S": [("V", "V"), ("I", "I"), ("I", "X"), ("V", "X"), ("F", "F+"), ("E", "E"), ("X", "X")],
    "PL": [("V", "V", "V"), ("E", "E", "E"), ("V", "E", "X"), ("I", "X", "X"), ("V", "X", "X")],
}


FUZZ = {"runs": 4000, "max_seconds": 240}


def fuzz_strategy():
    """one strategy over all strata (for the coverage-guided supplement of the thorough tier)"""
    ss = [s.payload for s in strata("thorough")]
    return st.one_of(*ss)


def strata(tier):
    q = tier == "quick"
    out = []
    for ka in KINDS:
        for kb in KINDS:
            pre = "%s-%s/" % (ka, kb)
            if ka in FLAT and kb in FLAT:
                recs = gen.flat_recipes(ka, kb)
                n = max(16, (160 if q else 3000) // len(recs))
                for rec in recs:
                    out.append(Stratum(pre + rec, "hyp", gen.with_variant(flat_case(ka, kb, rec)), n))
            elif ka in FLAT and kb in BODY:
                recs = FB_RECIPES[ka]
                n = max(16, (130 if q else 2500) // (len(recs) + (2 if ka == "PL" else 0)))
                for fs in recs:
                    out.append(Stratum(pre + "-".join(fs), "hyp", gen.with_variant(c02.case_for(kb, ka, *fs)), n))
                if ka == "PL":
                    for rec in ("face", "tangent-V"):
                        out.append(Stratum(pre + rec, "hyp", gen.with_variant(c02.case_special_plane(kb, rec)), n))
            elif ka in BODY and kb in FLAT:
                recs = FB_RECIPES[kb]
                n = max(16, (130 if q else 2500) // (len(recs) + (2 if kb == "PL" else 0)))
                for fs in recs:
                    out.append(Stratum(pre + "-".join(fs), "hyp", gen.with_variant(swap(c02.case_for(ka, kb, *fs))), n))
                if kb == "PL":
                    for rec in ("face", "tangent-V"):
                        out.append(Stratum(pre + rec, "hyp", gen.with_variant(swap(c02.case_special_plane(ka, rec))), n))
            elif ka == "G" and kb == "G":
                n = 16 if q else 300
                for r in c03.GG_COPLANAR:
                    out.append(Stratum(pre + "coplanar/" + r, "hyp", gen.with_variant(c03.gg_coplanar(r)), n))
                for r in c03.GG_CROSSING:
                    out.append(Stratum(pre + "crossing/" + r, "hyp", gen.with_variant(c03.gg_crossing(r)), n))
            elif ka == "K" and kb == "K":
                n = 16 if q else 160
                for r in c03.KK:
                    out.append(Stratum(pre + r, "hyp", gen.with_variant(c03.kk(r)), n))
            else:
                n = 16 if q else 200
                for r in c03.GK:
                    out.append(Stratum(pre + r, "hyp", gen.with_variant(_gk_ordered(ka, r)), n))
    return out


@st.composite
def _gk_ordered(draw, ka, recipe):
    K = draw(GB.polyhedron())
    g = draw(GB.polygon_vs_polyhedron(K, recipe))
    assume(g is not None and len(g[1]) >= 3)
    assume(GB.max_coord(g) <= 40)
    return (g, K, recipe) if ka == "G" else (K, g, recipe)
