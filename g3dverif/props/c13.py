"""C13 - all queries commute with lattice isometries and uniform scaling."""
import math
import itertools
from fractions import Fraction as F
from hypothesis import strategies as st, assume

from ..common import lib
from ..engine import Fail, Stratum
from .. import exact as X, bridge as B, gen, genbody as GB, admit as A
from .c07 import IN_SUPPORT, DIST, ANG
from . import c02, c03

ID = "C13"
WITNESS = ("eps", "round")
RULE = (
    "operand pairs from the relation-recipe generators of C01 (flat/flat), C02 (flat through feature points of a "
    "body) and C03 (related bodies), plus builder parameter tuples (Circle/Cylinder/Cone/Parallelepiped), each "
    "combined with a transform T = (signed axis permutation M, lattice translation t, scale k in {1/2,1,2,3}); all "
    "48 signed permutations are enumerated (one group of strata per M, for every operand family). T is applied to "
    "the exact descriptors and the transformed objects are built fresh. Oracle (metamorphic, library against "
    "itself): denote(intersection(Ta,Tb)) equals T(denote(intersection(a,b))) within 1e-7; `a in b`, parallel, "
    "orthogonal and == unchanged; angle unchanged (1e-7); distance and length x k, area x k^2, volume x k^3 "
    "(relative 1e-9); both the original and the transformed pair must be inside the admission domain. "
    "non-trivial = M is not the identity and the intersection is non-empty or a boolean query is True; distinct = "
    "distinct (a, b, T)."
)
ASSUMPTIONS = [
    "float coordinates; T(p) = k*M*p + t evaluated on float denotations (k=3 costs one rounding, far below 1e-7)",
    "failing cases are reported only inside the admission domain on both sides; run-time tolerance/rounding witness",
]

PERMS = []
for perm in itertools.permutations(range(3)):
    for signs in itertools.product((1, -1), repeat=3):
        PERMS.append((perm, signs))
assert len(PERMS) == 48
KS = (F(1, 2), F(1), F(2), F(3))


def mat_apply(Mi, v):
    perm, signs = PERMS[Mi]
    return tuple(signs[i] * v[perm[i]] for i in range(3))


def transform(Mi, t, k):
    fp = lambda p: X.add(X.mul(k, mat_apply(Mi, p)), t)
    fv = lambda v: X.mul(k, mat_apply(Mi, v))
    return fp, fv


def t_denote(d, Mi, t, k):
    """apply T to a float denotation"""
    if d is None:
        return None
    kf = float(k)
    tf = X.fl(t)
    fp = lambda p: tuple(kf * c + tc for c, tc in zip(mat_apply(Mi, p), tf))
    fv = lambda v: tuple(kf * c for c in mat_apply(Mi, v))
    kind = d[0]
    if kind == "P":
        return ("P", fp(d[1]))
    if kind == "S":
        return ("S", fp(d[1]), fp(d[2]))
    if kind in ("L", "H", "PL"):
        return (kind, fp(d[1]), fv(d[2]))
    if kind == "G":
        return ("G", [fp(p) for p in d[1]])
    if kind == "K":
        return ("K", [fp(p) for p in d[1]], d[2], d[3])
    return d


def check(case, ctx):
    G = lib()
    fam = case[0]
    if fam == "BUILD":
        return check_builder(case, ctx, G)
    _f, a, b, Mi, t, k = case
    fp, fv = transform(Mi, t, k)
    Ta, Tb = X.map_desc(a, fp, fv), X.map_desc(b, fp, fv)
    ident = PERMS[Mi] == ((0, 1, 2), (1, 1, 1))
    r = X.inter(a, b)
    pair = "%s,%s" % (a[0], b[0])
    ctx.cls("M%02d/%s" % (Mi, fam))
    ctx.cls("pair:" + pair)
    ctx.cls("k=%s" % k)
    facts = {"pair": pair, "M": PERMS[Mi], "k": k, "t": t, "family": fam}
    def build_T(o, To):
        # a transformed polyhedron is handed to the constructor with the SAME face vertex lists as the original
        # (a reflection therefore presents every face in the opposite winding), not re-canonicalised
        if o[0] == "K":
            return B.build(("K", [fp(p) for p in o[1]], o[2]))
        return B.build(To)

    oa, ob, oTa, oTb = B.build(a), B.build(b), build_T(a, Ta), build_T(b, Tb)
    kf = float(k)
    nontriv = False

    def both(name, fn):
        s1, v1 = B.call(fn, oa, ob)
        s2, v2 = B.call(fn, oTa, oTb)
        if s1 == "raise" or s2 == "raise":
            if s1 == s2 and type(v1) is type(v2):
                # the same failure on both sides is not an asymmetry (C01-C04 own totality)
                return None
            raise Fail(
                "%s [%s]: raises on one side of the transform only" % (name, pair),
                {"original": repr(v1)[:200], "transformed": repr(v2)[:200]},
                facts,
            )
        return v1, v2

    for nm, fn in (("intersection(a,b)", lambda x, y: G.intersection(x, y)), ("intersection(b,a)", lambda x, y: G.intersection(y, x))):
        res = both(nm, fn)
        if res is not None:
            d1, d2 = B.denote(res[0]), B.denote(res[1])
            why = B.same_set(t_denote(d1, Mi, t, k), d2)
            if why:
                raise Fail("%s [%s] does not commute with the transform: %s" % (nm, pair, why), {"original": d1, "transformed": d2}, facts)
            if d1 is not None:
                nontriv = True
    if a[0] in IN_SUPPORT and b[0] in IN_SUPPORT[a[0]]:
        res = both("a in b", lambda x, y: bool(x in y))
        if res is not None:
            if res[0] != res[1]:
                raise Fail("`a in b` [%s] changes under the transform" % pair, {"original": res[0], "transformed": res[1]}, facts)
            nontriv = nontriv or res[0]
    if (a[0], b[0]) in DIST:
        res = both("distance", lambda x, y: G.distance(x, y))
        if res is not None and abs(res[1] - kf * res[0]) > 1e-9 * max(1.0, kf * res[0]):
            raise Fail("distance [%s] does not scale by k under the transform" % pair, {"original": res[0], "transformed": res[1], "k": kf}, facts)
    if (a[0], b[0]) in ANG:
        res = both("angle", lambda x, y: G.angle(x, y))
        if res is not None and abs(res[1] - res[0]) > 1e-7:
            raise Fail("angle [%s] changes under the transform" % pair, {"original": res[0], "transformed": res[1]}, facts)
        for nm, fn in (("parallel", G.parallel), ("orthogonal", G.orthogonal)):
            res = both(nm, lambda x, y, fn=fn: bool(fn(x, y)))
            if res is not None:
                if res[0] != res[1]:
                    raise Fail("%s [%s] changes under the transform" % (nm, pair), {"original": res[0], "transformed": res[1]}, facts)
                nontriv = nontriv or res[0]
    if a[0] == b[0]:
        res = both("==", lambda x, y: (x == y) is True)
        if res is not None:
            if res[0] != res[1]:
                raise Fail("== [%s] changes under the transform" % pair, {"original": res[0], "transformed": res[1]}, facts)
            nontriv = nontriv or res[0]
    for o, To, d in ((oa, oTa, a), (ob, oTb, b)):
        for m, pw in (("length", 1), ("area", 2), ("volume", 3)):
            if hasattr(o, m) and d[0] in ("S", "G", "K"):
                s1, v1 = B.call(getattr(o, m))
                s2, v2 = B.call(getattr(To, m))
                if s1 == "raise" or s2 == "raise":
                    raise Fail("%s raises" % m, {"original": repr(v1), "transformed": repr(v2)}, facts)
                if abs(v2 - kf ** pw * v1) > 1e-9 * max(1e-12, kf ** pw * v1):
                    raise Fail("%s [%s] does not scale by k^%d under the transform" % (m, d[0], pw), {"original": v1, "transformed": v2, "k": kf}, facts)
    if nontriv and not ident:
        ctx.nontrivial(case)
        ctx.note("nontrivial:M%02d/%s" % (Mi, fam))
    ctx.sample("%s/%s" % (fam, pair), case, B.kind_name(r))


def check_builder(case, ctx, G):
    _f, which, c, axis, r, n, Mi, t, k = case
    fp, fv = transform(Mi, t, k)
    ident = PERMS[Mi] == ((0, 1, 2), (1, 1, 1))
    ctx.cls("M%02d/BUILD" % Mi)
    ctx.cls("builder:" + which)
    facts = {"builder": which, "M": PERMS[Mi], "k": k, "axis": axis}
    kf = float(k)

    def mk(cc, ax, rr):
        if which == "Circle":
            return G.Circle(B.pt(cc), B.vec(ax), float(rr), n)
        if which == "Cylinder":
            return G.Cylinder(B.pt(cc), float(rr), B.vec(ax), n)
        if which == "Cone":
            return G.Cone(B.pt(cc), float(rr), B.vec(ax), n)
        u, v, w = ax
        return G.Parallelepiped(B.pt(cc), B.vec(u), B.vec(v), B.vec(w))

    if which == "Parallelepiped":
        Tax = tuple(fv(u) for u in axis)
    else:
        Tax = fv(axis)
    s1, o1 = B.call(mk, c, axis, r)
    s2, o2 = B.call(mk, fp(c), Tax, r * k)
    if s1 == "raise" or s2 == "raise":
        if s1 == s2 and type(o1) is type(o2):
            return
        raise Fail("%s: raises on one side of the transform only" % which, {"original": repr(o1)[:200], "transformed": repr(o2)[:200]}, facts)
    for m, pw in (("length", 1), ("area", 2), ("volume", 3)):
        if hasattr(o1, m):
            v1, v2 = getattr(o1, m)(), getattr(o2, m)()
            if abs(v2 - kf ** pw * v1) > 1e-9 * kf ** pw * v1:
                raise Fail("%s.%s does not scale by k^%d under the transform" % (which, m, pw), {"original": v1, "transformed": v2}, facts)
    if which != "Circle":
        if (len(o1.point_set), len(o1.segment_set), len(o1.convex_polygons)) != (len(o2.point_set), len(o2.segment_set), len(o2.convex_polygons)):
            raise Fail("%s: vertex/edge/face counts change under the transform" % which, {}, facts)
    if not ident:
        ctx.nontrivial(case)
        ctx.note("nontrivial:M%02d/BUILD" % Mi)
    ctx.sample("BUILD/" + which, case)


def admit(case, fail):
    if case[0] == "BUILD":
        return None
    _f, a, b, Mi, t, k = case
    fp, fv = transform(Mi, t, k)
    for x, y in ((a, b), (X.map_desc(a, fp, fv), X.map_desc(b, fp, fv))):
        r = X.inter(x, y)
        if x[0] in X.FLAT and y[0] in X.FLAT:
            why = A.flat_case_margin(x, y, r).reason()
        else:
            why = A.body_case_margin(x, y, r).reason()
        if why:
            return why
    return None


FLATS = ("P", "L", "H", "S", "PL")


@st.composite
def tdraw(draw):
    t = tuple(F(draw(st.integers(-4, 4)), draw(st.sampled_from((1, 1, 2)))) for _ in range(3))
    k = draw(st.sampled_from(KS))
    return t, k


@st.composite
def ff_case(draw, Mi):
    ka, kb = draw(st.sampled_from(FLATS)), draw(st.sampled_from(FLATS))
    rec = draw(st.sampled_from(gen.flat_recipes(ka, kb)))
    a, b = draw(gen.flat_pair(ka, kb, rec))
    t, k = draw(tdraw())
    return ("FF", a, b, Mi, t, k)


@st.composite
def fb_case(draw, Mi):
    kK = draw(st.sampled_from(("G", "K")))
    kf = draw(st.sampled_from(FLATS))
    fs = draw(st.sampled_from(c02.FEATS)), draw(st.sampled_from(c02.FEATS)), draw(st.sampled_from(c02.FEATS))
    f, K, _tag = draw(c02.case_for(kK, kf, *fs))
    t, k = draw(tdraw())
    if draw(st.booleans()):
        return ("FB", f, K, Mi, t, k)
    return ("FB", K, f, Mi, t, k)


@st.composite
def bb_case(draw, Mi):
    which = draw(st.integers(0, 3))
    if which == 0:
        a, b, _t = draw(c03.gg_coplanar(draw(st.sampled_from(c03.GG_COPLANAR))))
    elif which == 1:
        a, b, _t = draw(c03.gg_crossing(draw(st.sampled_from(c03.GG_CROSSING))))
    elif which == 2:
        a, b, _t = draw(c03.gk(draw(st.sampled_from(c03.GK))))
    else:
        a, b, _t = draw(c03.kk(draw(st.sampled_from(c03.KK))))
    t, k = draw(tdraw())
    return ("BB", a, b, Mi, t, k)


@st.composite
def build_case(draw, Mi):
    which = draw(st.sampled_from(("Circle", "Cylinder", "Cone", "Parallelepiped")))
    c = draw(gen.lattice_point(4))
    t, k = draw(tdraw())
    if which == "Parallelepiped":
        u, v, w = draw(gen.direction(3)), draw(gen.direction(3)), draw(gen.direction(3))
        assume(X.det3(u, v, w) != 0)
        return ("BUILD", which, c, (u, v, w), F(1), 0, Mi, t, k)
    d = draw(st.sampled_from(gen.AXIS_DIRS))
    axis = X.mul(draw(st.sampled_from((F(1, 2), F(1), F(2)))), tuple(F(x) for x in d))
    r = draw(st.sampled_from((F(1, 2), F(1), F(3, 2), F(5))))
    n = draw(st.integers(3, 12))
    return ("BUILD", which, c, axis, r, n, Mi, t, k)


def health(m, tier):
    missing = []
    for Mi in range(48):
        for fam in ("FF", "FB", "BB", "BUILD"):
            if m["classes"].get("M%02d/%s" % (Mi, fam), 0) < 1:
                missing.append("M%02d/%s" % (Mi, fam))
    if missing:
        return "group elements without cases: %s" % ",".join(missing[:8])
    return None


def strata(tier):
    q = tier == "quick"
    out = []
    for Mi in range(48):
        out.append(Stratum("M%02d/FF" % Mi, "hyp", ff_case(Mi), 24 if q else 800))
        out.append(Stratum("M%02d/FB" % Mi, "hyp", fb_case(Mi), 12 if q else 400))
        out.append(Stratum("M%02d/BB" % Mi, "hyp", bb_case(Mi), 4 if q else 120))
        out.append(Stratum("M%02d/BUILD" % Mi, "hyp", build_case(Mi), 16 if q else 400))
    return out
