"""C17 - Plane and Line forms round-trip to the same object."""
import math
import itertools
from fractions import Fraction as F
from hypothesis import strategies as st, assume

from ..common import lib
from ..engine import Fail, Stratum
from .. import exact as X, bridge as B, gen, admit as A

ID = "C17"
WITNESS = ()
RULE = (
    "planes given in each constructor form - point+normal, general form (a,b,c,d) (all integer coefficient "
    "vectors in [-3,3]^3 \\ 0 with d in [-4,4] are enumerated: 342*9 = 3078, plus generated ones; all 1330 normal "
    "directions in [-5,5]^3 \\ 0 are enumerated in point-normal form), three points, "
    "point + two vectors - and lines given as (p,q), (p,q-p), (position vector, direction), over lattice poses "
    "with every zero pattern and sign of the normal/direction; planes through three far-apart quarter-lattice points "
    "near the top of the coordinate range (long edges, one small normal component); lines through the origin written "
    "with support vector k * direction. For each: general_form / point_normal / "
    "parametric round trips must == the original and contain three exact non-collinear points of it; "
    "parametric vectors independent and orthogonal to the normal (1e-9); membership of exactly constructed "
    "on-plane points (True) and points displaced along the normal by >= 1/64 (False); -P has the negated "
    "normal and the same points; the three Line forms and Line(*parametric()) are ==. non-trivial = normal or "
    "direction with a zero component or a negative leading component; distinct = distinct case descriptor."
    ' The named constructors Plane.xy_plane / yz_plane / xz_plane and Line.x_axis / y_axis / z_axis are enumerated as further forms of the sets their docstrings name.'
)
ASSUMPTIONS = [
    "== is additionally cross-checked by exact membership so that hash defects (C08) are not inherited",
    "float coordinates except the general form, which is exercised with int and float coefficients",
]


# the named constructors and the sets their docstrings name ("return xy plane", "return x axis")
NAMED_PLANES = {"xy_plane": (F(0), F(0), F(1)), "yz_plane": (F(1), F(0), F(0)), "xz_plane": (F(0), F(1), F(0))}
NAMED_LINES = {"x_axis": (F(1), F(0), F(0)), "y_axis": (F(0), F(1), F(0)), "z_axis": (F(0), F(0), F(1))}


def plane_desc(case):
    """exact (p, n) of the plane a case describes"""
    k = case[0]
    if k == "PN":
        return case[1], case[2]
    if k == "GF":
        a, b, c, d = case[1]
        n = (F(a), F(b), F(c))
        i = next(j for j in range(3) if n[j] != 0)
        p = [F(0), F(0), F(0)]
        p[i] = F(d) / n[i]
        return tuple(p), n
    if k == "3P":
        p1, p2, p3 = case[1:4]
        return p1, X.cross(X.sub(p2, p1), X.sub(p3, p1))
    if k == "PVV":
        return case[1], X.cross(case[2], case[3])
    if k == "NAMED":
        return (F(0), F(0), F(0)), NAMED_PLANES[case[1]]
    raise ValueError(k)


def construct(case, G, ctype=float):
    k = case[0]
    if k == "PN":
        return G.Plane(B.pt(case[1], ctype), B.vec(case[2], ctype))
    if k == "GF":
        a, b, c, d = case[1]
        cv = (lambda x: int(x)) if case[2] == "int" else (lambda x: float(x))
        return G.Plane(cv(a), cv(b), cv(c), cv(d))
    if k == "3P":
        return G.Plane(B.pt(case[1], ctype), B.pt(case[2], ctype), B.pt(case[3], ctype))
    if k == "PVV":
        return G.Plane(B.pt(case[1], ctype), B.vec(case[2], ctype), B.vec(case[3], ctype))
    if k == "NAMED":
        return getattr(G.Plane, case[1])()
    raise ValueError(k)


def on_points(p, n):
    u, v = X.perp2(n)
    return [p, X.add(p, u), X.add(p, v), X.add(p, X.add(X.mul(F(-3, 2), u), X.mul(F(5, 4), v)))]


def off_points(p, n):
    pts = []
    for q in on_points(p, n)[:3]:
        for t in (F(1, 64), F(-1, 8), F(1)):
            # displacement t*n has length |t||n| >= 1/64 because n is a non-zero lattice vector
            scale = t if X.dot(n, n) >= 1 else t / F(X.dot(n, n))
            pts.append(X.add(q, X.mul(scale, n)))
    return pts


def _flags(n):
    lead = next(x for x in n if x != 0)
    return any(x == 0 for x in n) or lead < 0


def check_plane(case, ctx, G):
    p, n = plane_desc(case)
    cls = "plane/%s/zeros%d%s" % (case[0], sum(1 for x in n if x == 0), "/neglead" if next(x for x in n if x != 0) < 0 else "")
    ctx.cls(cls)
    if _flags(n):
        ctx.nontrivial(case)
    ctx.sample(cls, case)
    facts = {"form": case[0], "zeros": [i for i in range(3) if n[i] == 0], "leading_zero": n[0] == 0}

    def step(name, fn, *args):
        s, v = B.call(fn, *args)
        if s == "raise":
            raise Fail("%s [%s] raises %s" % (name, case[0], B.exc_sig(v)), {"error": repr(v)}, facts)
        return v

    P = step("constructor", construct, case, G)
    ons = on_points(p, n)
    offs = off_points(p, n)

    def same_plane(Q, what):
        eq = step(what + " ==", lambda: Q == P)
        eq2 = step(what + " == (reflected)", lambda: P == Q)
        if not (eq is True and eq2 is True):
            raise Fail("%s [%s] does not equal the original plane" % (what, case[0]), {"eq": repr(eq), "eq_reflected": repr(eq2)}, facts)
        for q in ons[:3]:
            if not step(what + " contains", lambda: B.pt(q) in Q):
                raise Fail("%s [%s] misses an exact point of the plane" % (what, case[0]), {"point": q}, facts)
        for q in offs[:3]:
            if step(what + " contains", lambda: B.pt(q) in Q):
                raise Fail("%s [%s] contains a point off the plane" % (what, case[0]), {"point": q}, facts)

    # membership on the plane itself
    for q in ons:
        if not step("in", lambda: B.pt(q) in P):
            raise Fail("plane [%s] misses an exactly constructed point of itself" % case[0], {"point": q}, facts)
    for q in offs:
        if step("in", lambda: B.pt(q) in P):
            raise Fail("plane [%s] contains a point off it" % case[0], {"point": q}, facts)
    if case[0] == "3P":
        for q in case[1:4]:
            if not step("in", lambda: B.pt(q) in P):
                raise Fail("three-point plane misses a defining point", {"point": q}, facts)
    # general form
    gf = step("general_form", P.general_form)
    if not isinstance(gf, (tuple, list)) or len(gf) != 4 or any(not isinstance(x, (int, float, F)) for x in gf):
        raise Fail("general_form [%s] is not four numbers" % case[0], {"got": repr(gf)}, facts)
    same_plane(step("Plane(*general_form())", lambda: G.Plane(*gf)), "Plane(*general_form())")
    # the coefficients must describe this plane
    nf = (float(gf[0]), float(gf[1]), float(gf[2]))
    if not B._parallel(nf, X.fl(n)):
        raise Fail("general_form [%s] normal not parallel to the plane's" % case[0], {"got": repr(gf)}, facts)
    for q in ons[:3]:
        if abs(B._fdot(nf, X.fl(q)) - float(gf[3])) > 1e-9 * max(1.0, abs(float(gf[3]))):
            raise Fail("general_form [%s] equation not satisfied by a point of the plane" % case[0], {"got": repr(gf), "point": q}, facts)
    # point normal
    pn = step("point_normal", P.point_normal)
    same_plane(step("Plane(Point(p), n)", lambda: G.Plane(G.Point(pn[0]), pn[1])), "Plane(Point(p), n) from point_normal()")
    # parametric
    uvw = step("parametric", P.parametric)
    u_, v_, w_ = uvw
    vf, wf = B._v3(v_), B._v3(w_)
    lv, lw = B._fnorm(vf), B._fnorm(wf)
    if not (lv > 0 and lw > 0) or B._fnorm(B._fcross(vf, wf)) <= 1e-9 * lv * lw:
        raise Fail("parametric [%s] vectors not linearly independent" % case[0], {"v": vf, "w": wf}, facts)
    nn = X.fl(n)
    ln = B._fnorm(nn)
    if abs(B._fdot(vf, nn)) > 1e-9 * lv * ln or abs(B._fdot(wf, nn)) > 1e-9 * lw * ln:
        raise Fail("parametric [%s] vectors not parallel to the plane" % case[0], {"v": vf, "w": wf}, facts)
    same_plane(step("Plane(Point(u), v, w)", lambda: G.Plane(G.Point(u_), v_, w_)), "Plane(Point(u), v, w) from parametric()")
    # negation
    N = step("-P", lambda: -P)
    if not B._parallel(B._v3(N.n), B._v3(P.n)) or B._fdot(B._v3(N.n), B._v3(P.n)) >= 0:
        raise Fail("-P [%s] normal is not the opposite normal" % case[0], {"n": B._v3(P.n), "neg": B._v3(N.n)}, facts)
    for q in ons:
        if not step("in -P", lambda: B.pt(q) in N):
            raise Fail("-P [%s] misses a point of P" % case[0], {"point": q}, facts)
    for q in offs[:3]:
        if step("in -P", lambda: B.pt(q) in N):
            raise Fail("-P [%s] contains a point off P" % case[0], {"point": q}, facts)


def check_line(case, ctx, G):
    _k, p, d = case[:3]
    named = case[3] if len(case) > 3 else None
    cls = "line/zeros%d%s" % (sum(1 for x in d if x == 0), "/neglead" if next(x for x in d if x != 0) < 0 else "")
    ctx.cls(cls)
    if _flags(d):
        ctx.nontrivial(case)
    ctx.sample(cls, case)
    facts = {"form": "LINE"}
    q = X.add(p, d)

    def step(name, fn):
        s, v = B.call(fn)
        if s == "raise":
            raise Fail("%s raises %s" % (name, B.exc_sig(v)), {"error": repr(v)}, facts)
        return v

    L1 = step("Line(p, q)", lambda: G.Line(B.pt(p), B.pt(q)))
    L2 = step("Line(p, q-p)", lambda: G.Line(B.pt(p), B.vec(d)))
    L3 = step("Line(position vector, direction)", lambda: G.Line(B.vec(p), B.vec(d)))
    s_u = step("parametric", L1.parametric)
    L4 = step("Line(*parametric())", lambda: G.Line(s_u[0], s_u[1]))
    Ls = [("Line(p,q)", L1), ("Line(p,q-p)", L2), ("Line(pv,d)", L3), ("Line(*parametric())", L4)]
    if named:
        # p is a point of the named axis other than the origin, d a multiple of its direction
        L5 = step("Line.%s()" % named, getattr(G.Line, named))
        s5 = step("Line.%s().parametric" % named, L5.parametric)
        Ls += [("Line.%s()" % named, L5), ("Line(*Line.%s().parametric())" % named, step("Line(*parametric())", lambda: G.Line(s5[0], s5[1])))]
    off = X.add(X.add(p, X.mul(F(1, 2), d)), X.mul(F(1, 8), X.perp2(d)[0]))
    for (na, la), (nb, lb) in itertools.permutations(Ls, 2):
        if step("%s == %s" % (na, nb), lambda: la == lb) is not True:
            raise Fail("%s != %s" % (na, nb), {}, facts)
    for name, l in Ls:
        for t in (F(0), F(1), F(-3, 2), F(5, 4)):
            x = X.add(p, X.mul(t, d))
            if not step("in", lambda: B.pt(x) in l):
                raise Fail("%s misses a point of the line" % name, {"point": x}, facts)
        if step("in", lambda: B.pt(off) in l):
            raise Fail("%s contains a point off the line" % name, {"point": off}, facts)


def check(case, ctx):
    G = lib()
    if case[0] == "LINE":
        return check_line(case, ctx, G)
    return check_plane(case, ctx, G)


def admit(case, fail):
    return None


@st.composite
def gen_pn(draw):
    return ("PN", draw(gen.lattice_point(6)), draw(gen.direction(4)))


@st.composite
def gen_gf(draw):
    a, b, c = draw(gen.direction(4))
    d = draw(st.integers(-6, 6))
    integral = all(x.denominator == 1 for x in (a, b, c))
    mode = draw(st.sampled_from(("int", "float"))) if integral else "float"
    return ("GF", (a, b, c, F(d)), mode)


@st.composite
def gen_3p(draw):
    p = draw(gen.lattice_point(6))
    n = draw(gen.direction(3))
    u, v = X.perp2(n)
    i, j, k, l = (draw(st.integers(-3, 3)) for _ in range(4))
    assume(i * l - j * k != 0)
    a = X.add(p, X.add(X.mul(F(i), u), X.mul(F(j), v)))
    b = X.add(p, X.add(X.mul(F(k), u), X.mul(F(l), v)))
    if draw(st.booleans()):
        return ("3P", p, a, b)
    return ("PVV", p, X.sub(a, p), X.sub(b, p))


@st.composite
def gen_line(draw):
    mode = draw(st.integers(0, 5))
    d = draw(gen.direction(4))
    if mode == 0:
        # a line through the origin written with its support vector equal to (a multiple of) its direction
        k = draw(st.sampled_from((F(1), F(1), F(2), F(-1), F(1, 2))))
        return ("LINE", X.mul(k, d), d)
    if mode == 1:
        return ("LINE", (F(0), F(0), F(0)), d)
    return ("LINE", draw(gen.lattice_point(6)), d)


@st.composite
def gen_3p_far(draw):
    """planes through three far-apart quarter-lattice points near the top of the coordinate range: long edge
    vectors, normals with one small component"""
    def pt():
        return tuple(F(draw(st.integers(-32, 32)), 4) for _ in range(3))

    c = [F(s_) * F(draw(st.integers(28, 32)), 4) for s_ in (draw(st.sampled_from((1, -1))), draw(st.sampled_from((1, -1))), draw(st.sampled_from((1, -1))))]
    p1 = (c[0], draw(st.sampled_from((F(31, 4), F(-8), F(15, 2)))), F(draw(st.integers(28, 32)), 4))
    p2 = (-c[0], F(draw(st.integers(28, 32)), 4), p1[2] + F(draw(st.integers(-1, 1)), 4))
    p3 = pt()
    if draw(st.booleans()):
        p3 = (c[0], p1[1] + F(draw(st.integers(-2, 2)), 4), p1[2] - F(draw(st.integers(0, 2)), 4))
    pts = list(draw(st.permutations([p1, p2, p3])))
    perm = draw(st.sampled_from(((0, 1, 2), (1, 2, 0), (2, 0, 1), (0, 2, 1))))
    pts = [tuple(q[i] for i in perm) for q in pts]
    n = X.cross(X.sub(pts[1], pts[0]), X.sub(pts[2], pts[0]))
    assume(not X.is_zero(n))
    # inside the margin domain: the three points are far from collinear
    l1, l2 = X.sub(pts[1], pts[0]), X.sub(pts[2], pts[0])
    assume(X.dot(n, n) * 10 ** 4 > X.dot(l1, l1) * X.dot(l2, l2))
    return ("3P", pts[0], pts[1], pts[2])


def enum_gf(shard, nshards):
    i = 0
    for a, b, c in itertools.product(range(-3, 4), repeat=3):
        if (a, b, c) == (0, 0, 0):
            continue
        for d in range(-4, 5):
            i += 1
            if i % nshards == shard:
                yield ("GF", (a, b, c, d), "int")


def enum_dirs(shard, nshards):
    i = 0
    for d in itertools.product(range(-5, 6), repeat=3):
        if d == (0, 0, 0):
            continue
        i += 1
        if i % nshards == shard:
            dd = tuple(F(x) for x in d)
            yield ("PN", (F(1), F(-2), F(1, 2)), dd)
            if max(abs(x) for x in d) <= 2:
                yield ("LINE", (F(1), F(-2), F(1, 2)), dd)


def enum_named(shard, nshards):
    i = 0
    for name in sorted(NAMED_PLANES):
        i += 1
        if i % nshards == shard:
            yield ("NAMED", name)
    for name, d in sorted(NAMED_LINES.items()):
        for t, k in ((F(0), F(1)), (F(-5, 2), F(-3)), (F(7), F(1, 4))):
            i += 1
            if i % nshards == shard:
                yield ("LINE", X.mul(t, d), X.mul(k, d), name)


def strata(tier):
    n = 600 if tier == "quick" else 20000
    return [
        Stratum("enum-general-form", "enum", enum_gf),
        Stratum("enum-directions", "enum", enum_dirs),
        Stratum("point-normal", "hyp", gen_pn(), n),
        Stratum("general-form", "hyp", gen_gf(), n),
        Stratum("three-points/two-vectors", "hyp", gen_3p(), n),
        Stratum("three-points/far-apart", "hyp", gen_3p_far(), n),
        Stratum("line", "hyp", gen_line(), n),
        Stratum("named-constructors", "enum", enum_named),
    ]
