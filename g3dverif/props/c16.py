"""C16 - solve returns genuine solutions of the linear system."""
import copy
import itertools
from fractions import Fraction as F

from hypothesis import strategies as st

from ..common import lib
from ..engine import Fail, Stratum
from .. import exact

ID = "C16"
RULE = (
    "augmented matrices: bounded-exhaustive over entries in {-2..2} for shapes 1x2,1x3,2x2,2x3 "
    "(thorough adds 3x2 over {-2..2} and 3x3 over {-1,0,1}), plus Hypothesis-generated int/Fraction "
    "matrices with entries up to 6 and denominators up to 4 for all shapes up to 3x3, and float matrices on the "
    "quarter lattice up to 8 (the entries the library's own callers produce; pivots of magnitude >= 5 over smaller "
    "entries forced in half of them, so that elimination leaves rounding residues); every system is "
    "solved with two fixed free-parameter vectors and (generated strata) a generated one. Oracle: exact "
    "rational Gaussian elimination (rank test, parameter count, residual of every original equation). "
    "non-trivial = rank-deficient, zero coefficient column or inconsistent; distinct = distinct matrix "
    "(enumerated matrices are distinct by construction; generated ones by digest). Systems with equal rows are "
    "also passed with those rows as one shared list object."
)
ASSUMPTIONS = [
    "solve() is called on a deep copy of the matrix (it reorders rows in place)",
    "int and float entries: residual tolerance 1e-9 relative to the row magnitude (the solver divides, producing floats); Fraction entries: exact",
]

PARAMS = ((1, 1, 1), (2, -3, 5))


def check(case, ctx):
    G = lib()
    _tag, rows, params, ctype = case
    rows = [list(r) for r in rows]
    neq = len(rows)
    nun = len(rows[0]) - 1
    A = [r[:-1] for r in rows]
    rA = exact.rank(A)
    rAb = exact.rank(rows)
    consistent = rA == rAb
    zero_col = any(all(r[j] == 0 for r in rows) for j in range(nun))
    deficient = rA < min(neq, nun)
    cls = "%dx%d/%s/%s" % (
        neq,
        nun,
        ctype,
        "inconsistent" if not consistent else ("rank%d" % rA),
    )
    ctx.cls(cls)
    if zero_col or deficient or not consistent:
        if case[0] == "E":
            ctx.nontrivial_distinct_by_construction()
        else:
            ctx.nontrivial((rows, ctype))
    ctx.sample(cls, case)
    conv = {"int": int, "frac": F, "float": float}[ctype]
    m = [[conv(x) for x in r] for r in rows]
    facts = {
        "zero_leading_column": all(r[0] == 0 for r in rows),
        "zero_column": zero_col,
        "consistent": consistent,
    }
    reps = [("list of lists", copy.deepcopy(m))]
    # a system with equal rows is also handed over with those rows being one shared list object ([row] * k), which
    # is still "a list of lists" (tuple rows are not tried: the statement does not say they are accepted)
    if len(set(map(tuple, rows))) < len(rows):
        shared = {}
        reps.append(("equal rows given as the same list object", [shared.setdefault(tuple(r), list(r)) for r in m]))
    for rep_name, mm in reps:
        facts["representation"] = rep_name
        _solve_and_check(G, mm, rows, neq, nun, rA, rAb, consistent, ctype, conv, params, facts)


def _solve_and_check(G, mm, rows, neq, nun, rA, rAb, consistent, ctype, conv, params, facts):
    try:
        sol = G.solve(mm)
        truth = bool(sol)
    except Exception as e:
        raise Fail("solve raises %s" % type(e).__name__, {"error": repr(e)}, facts)
    if truth != consistent:
        raise Fail(
            "truthiness %s but system is %s" % (truth, "consistent" if consistent else "inconsistent"),
            {"rankA": rA, "rankAb": rAb},
            facts,
        )
    if not consistent:
        return
    want = nun - rA
    if sol.varargs != want:
        raise Fail(
            "free-parameter count wrong",
            {"varargs": sol.varargs, "expected": want},
            facts,
        )
    plist = list(PARAMS) + ([params] if params else [])
    for prm in plist:
        prm = tuple(conv(x) if ctype in ("int", "float") else F(x) for x in prm[:want])
        try:
            vals = sol(*prm)
        except Exception as e:
            raise Fail("solution call raises %s" % type(e).__name__, {"error": repr(e), "params": prm}, facts)
        if not isinstance(vals, tuple) or len(vals) != nun:
            raise Fail("solution is not a tuple of one value per unknown", {"got": repr(vals)}, facts)
        for v in vals:
            if v is None or isinstance(v, bool) or not isinstance(v, (int, float, F)):
                raise Fail("solution contains a non-number", {"got": repr(vals), "params": prm}, facts)
        for r in rows:
            lhs = sum(F(c) * F(v) for c, v in zip(r[:-1], vals))
            res = lhs - F(r[-1])
            if ctype == "frac":
                bad = res != 0
            else:
                scale = max([1] + [abs(float(F(c) * F(v))) for c, v in zip(r[:-1], vals)])
                bad = abs(float(res)) > 1e-9 * scale
            if bad:
                raise Fail(
                    "returned values do not satisfy an equation",
                    {"row": r, "values": repr(vals), "residual": float(res), "params": prm},
                    facts,
                )


def _enum(neq, nun, vals, ctype="int"):
    width = neq * (nun + 1)

    def gen(shard, nshards):
        for i, flat in enumerate(itertools.product(vals, repeat=width)):
            if i % nshards != shard:
                continue
            rows = tuple(tuple(flat[r * (nun + 1) : (r + 1) * (nun + 1)]) for r in range(neq))
            yield ("E", rows, None, ctype)

    return gen


@st.composite
def gen_matrix(draw, ctype):
    neq = draw(st.integers(1, 3))
    nun = draw(st.integers(2, 3))
    if ctype == "int":
        e = st.integers(-6, 6)
    elif ctype == "float":
        # the entries the library itself feeds to the solver: floats on the quarter lattice up to 8 (exactly
        # representable, so the exact rank is that of the matrix handed over; elimination is inexact)
        e = st.builds(F, st.integers(-32, 32), st.just(4))
    else:
        e = st.builds(F, st.integers(-12, 12), st.sampled_from([1, 2, 3, 4]))
    mode = draw(st.sampled_from(["free", "dependent", "zerocol", "inconsistent"]))
    rows = [[draw(e) for _ in range(nun + 1)] for _ in range(neq)]
    if mode == "dependent" and neq >= 2:
        k = draw(st.sampled_from([-2, -1, 1, 2, 3]))
        rows[-1] = [k * x for x in rows[0]]
        if neq == 3 and draw(st.booleans()):
            rows[1] = [a + b for a, b in zip(rows[0], rows[1])]
    elif mode == "zerocol":
        j = draw(st.integers(0, nun - 1))
        for r in rows:
            r[j] = 0 if ctype == "int" else F(0)
    if ctype == "float" and draw(st.booleans()):
        # a pivot of magnitude >= 5 above a smaller entry: the multiplier is then not a short binary fraction
        i0 = draw(st.integers(0, neq - 1))
        rows[i0][0] = F(draw(st.sampled_from((22, 23, 25, 26, 27, 29, 31, -22, -25, -29))), 4)
    elif mode == "inconsistent" and neq >= 2:
        rows[-1] = list(rows[0][:-1]) + [rows[0][-1] + 1]
    params = tuple(draw(st.builds(F, st.integers(-9, 9), st.sampled_from([1, 2, 3]))) for _ in range(3))
    if ctype == "int":
        params = tuple(int(p) for p in params)
    if ctype == "float":
        params = tuple(F(int(p * 4), 4) for p in params)
    return ("H", tuple(tuple(r) for r in rows), params, ctype)


def strata(tier):
    v5 = (-2, -1, 0, 1, 2)
    s = [
        Stratum("enum-1x2", "enum", _enum(1, 2, v5)),
        Stratum("enum-1x3", "enum", _enum(1, 3, v5)),
        Stratum("enum-2x2", "enum", _enum(2, 2, v5)),
        Stratum("enum-2x3", "enum", _enum(2, 3, v5)),
        Stratum("enum-frac-2x2-{-1,0,1/2,1}", "enum", _enum(2, 2, (F(-1), F(0), F(1, 2), F(1)), "frac")),
    ]
    n = 4000 if tier == "quick" else 120000
    s.append(Stratum("gen-int", "hyp", gen_matrix("int"), n))
    s.append(Stratum("gen-frac", "hyp", gen_matrix("frac"), n))
    s.append(Stratum("gen-float-quarter-lattice", "hyp", gen_matrix("float"), n))
    if tier == "thorough":
        s.append(Stratum("enum-3x2", "enum", _enum(3, 2, v5)))
        s.append(Stratum("enum-3x3-{-1,0,1}", "enum", _enum(3, 3, (-1, 0, 1))))
        s.append(Stratum("enum-frac-2x3-{-1,0,1/2}", "enum", _enum(2, 3, (F(-1), F(0), F(1, 2)), "frac")))
    return s
