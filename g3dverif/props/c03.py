"""C03 - intersection of two convex polygons/polyhedra is the exact convex set."""
import math
from fractions import Fraction as F
from hypothesis import strategies as st, assume

from ..common import lib
from ..engine import Fail, Stratum
from .. import exact as X, bridge as B, gen, genbody as GB, admit as A

ID = "C03"
WITNESS = ("eps", "round")
RULE = (
    "polygon-polygon (coplanar: equal, shared vertex, shared full/partial edge, translated copy, nested, "
    "overlapping, disjoint; crossing planes: through interiors, edge lying in the other plane, vertex touch, "
    "parallel planes), polygon-polyhedron (a face, face shifted/scaled in its plane, sections larger/smaller/"
    "partially overlapping the true section, touching a vertex/edge, inside, free) and polyhedron-polyhedron "
    "(equal, translated by a vertex difference or a fraction of it, glued on a whole/partial face, sharing an "
    "edge or a vertex, sitting on a face plane with a partly overlapping base, nested, inscribed (spanned by vertex / edge / face points of the other body, touching its boundary from inside), independent; one body in fifteen is a small hash-collision body with vertices at -1 / -2), each stratum also with both operands mapped by the same rational "
    "rotation (integer quaternions; the library receives the float roundings, the oracle the exact rationals). "
    "Both argument orders and the method form are compared with the exact vertex enumeration of the combined "
    "H-representations: kind by dimension, vertex set within 1e-7, V-E+F=2 and exact face/edge counts for "
    "polyhedron results, and length/area/volume of the result against the exact measure (1e-9 relative). "
    "non-trivial = non-empty intersection or a coplanar/touching relation; distinct = distinct operand pair."
)
ASSUMPTIONS = [
    "float coordinates; comparator 1e-7; measures 1e-9 relative",
    "rational-rotation sub-domain: operands differ from the exact rationals by <= 1 ulp, inside the library tolerance",
    "failing cases are reported only inside the admission domain (exact margins > 1e-3, run-time tolerance/rounding witness)",
]


def measures_ok(val, r, facts, name):
    """result measures against exact ones"""
    k = r[0]
    if k == "S":
        ref = X.seg_len(r[1], r[2])
        got = val.length()
        if abs(got - ref) > 1e-9 * ref:
            raise Fail("%s: length of the result wrong" % name, {"got": got, "expected": ref}, facts)
    elif k == "G":
        ref = X.polygon_area(r[1])
        got = val.area()
        if abs(got - ref) > 1e-9 * ref:
            raise Fail("%s: area of the result wrong" % name, {"got": got, "expected": ref}, facts)
        ref = X.perimeter(r)
        got = val.length()
        if abs(got - ref) > 1e-9 * ref:
            raise Fail("%s: perimeter of the result wrong" % name, {"got": got, "expected": ref}, facts)
    elif k == "K":
        ref = float(X.volume(r))
        got = val.volume()
        if abs(got - ref) > 1e-9 * ref:
            raise Fail("%s: volume of the result wrong" % name, {"got": got, "expected": ref}, facts)
        ref = X.surface_area(r)
        got = val.area()
        if abs(got - ref) > 1e-9 * ref:
            raise Fail("%s: surface area of the result wrong" % name, {"got": got, "expected": ref}, facts)


def check(case, ctx):
    G = lib()
    a, b, tag = case[0], case[1], case[2]
    var = case[3] if len(case) > 3 else B.DEFAULT_VAR
    r = X.inter(a, b)
    touching = r is not None and r[0] != {("G", "G"): "G", ("G", "K"): "G", ("K", "G"): "G", ("K", "K"): "K"}[(a[0], b[0])]
    cls = "%s-%s/%s:%s" % (a[0], b[0], tag.split("|")[0], B.kind_name(r))
    ctx.cls(cls)
    if "rot" in tag:
        ctx.cls("rotated")
    if r is not None or tag.split("|")[0] in ("parallel-plane",):
        ctx.nontrivial((a, b))
    ctx.sample(cls, case, B.kind_name(r))
    e = B.fdesc(r)
    if "rot" in tag:
        var = ("f", var[1], "f", var[3])
    oa, ob = B.build_var(a, b, var)
    calls = [
        ("intersection(a,b)", G.intersection, (oa, ob)),
        ("intersection(b,a)", G.intersection, (ob, oa)),
        ("a.intersection(b)", oa.intersection, (ob,)),
    ]
    facts = {"pair": "%s-%s" % (a[0], b[0]), "expected": B.kind_name(r), "recipe": tag}
    for name, fn, args in calls:
        s, val = B.call(fn, *args)
        if s == "raise":
            raise Fail("%s [%s,%s] raises %s" % (name, a[0], b[0], B.exc_sig(val)), {"error": repr(val), "expected": e}, facts)
        g = B.denote(val)
        why = B.same_set(e, g)
        if why:
            raise Fail("%s [%s,%s] wrong: %s" % (name, a[0], b[0], why), {"expected": e, "got": g}, facts)
        if r is not None and r[0] in ("S", "G", "K"):
            s2, err = B.call(measures_ok, val, r, facts, name)
            if s2 == "raise":
                if isinstance(err, Fail):
                    raise err
                raise Fail("%s [%s,%s]: measuring the result raises %s" % (name, a[0], b[0], B.exc_sig(err)), {"error": repr(err)}, facts)


def admit(case, fail):
    a, b = case[0], case[1]
    return A.body_case_margin(a, b, X.inter(a, b)).reason()


@st.composite
def rotated(draw, pair_strategy):
    a, b, tag = draw(pair_strategy)
    q = draw(st.sampled_from(GB.QUATS))
    rot = GB.rotation(q)
    return (X.map_desc(a, rot), X.map_desc(b, rot), tag + "|rot")


@st.composite
def gg_coplanar(draw, recipe):
    g = draw(GB.polygon(3, 6))
    h = draw(GB.polygon_in_plane_of(g, recipe))
    assume(h is not None and len(h[1]) >= 3)
    assume(GB.max_coord(h) <= 40)
    return (g, h, recipe)


@st.composite
def gg_crossing(draw, recipe):
    g = draw(GB.polygon(3, 6))
    h = draw(GB.polygon_crossing(g, recipe))
    assume(h is not None and len(h[1]) >= 3)
    assume(GB.max_coord(h) <= 40)
    return (g, h, recipe)


@st.composite
def gk(draw, recipe):
    K = draw(GB.polyhedron())
    g = draw(GB.polygon_vs_polyhedron(K, recipe))
    assume(g is not None and len(g[1]) >= 3)
    assume(GB.max_coord(g) <= 40)
    if draw(st.booleans()):
        return (g, K, recipe)
    return (K, g, recipe)


@st.composite
def kk(draw, recipe):
    K = draw(GB.polyhedron(draw(st.sampled_from(("prism", "pyramid", "para", "prism"))) if recipe == "glue-face-overlap" and draw(st.booleans()) else None))
    K2 = draw(GB.polyhedron_vs_polyhedron(K, recipe))
    assume(GB.max_coord(K2) <= 40)
    return (K, K2, recipe)


GG_COPLANAR = ("equal", "share-vertex", "share-edge-full", "share-edge-part", "translated", "nested", "overlap", "disjoint")
GG_CROSSING = ("through", "edge-on-plane", "vertex-touch", "parallel-plane")
GK = ("face", "face-shifted", "face-bigger", "face-smaller", "section-big", "section-small", "section-partial", "touch-V", "touch-E", "inside", "free")
KK = ("equal", "translate-vertex", "translate-half", "glue-face", "glue-face-part", "glue-face-overlap", "share-edge", "share-vertex", "nested", "inscribed", "independent")


def strata(tier):
    q = tier == "quick"
    out = []
    n = 50 if q else 2000
    for r in GG_COPLANAR:
        out.append(Stratum("G-G/coplanar/" + r, "hyp", gen.with_variant(gg_coplanar(r)), n))
        out.append(Stratum("G-G/coplanar/" + r + "/rot", "hyp", gen.with_variant(rotated(gg_coplanar(r))), n // 2))
    for r in GG_CROSSING:
        out.append(Stratum("G-G/crossing/" + r, "hyp", gen.with_variant(gg_crossing(r)), n))
        out.append(Stratum("G-G/crossing/" + r + "/rot", "hyp", gen.with_variant(rotated(gg_crossing(r))), n // 2))
    n = 48 if q else 1200
    for r in GK:
        out.append(Stratum("G-K/" + r, "hyp", gen.with_variant(gk(r)), n))
        out.append(Stratum("G-K/" + r + "/rot", "hyp", gen.with_variant(rotated(gk(r))), n // 2))
    n = 36 if q else 640
    for r in KK:
        out.append(Stratum("K-K/" + r, "hyp", gen.with_variant(kk(r)), n * 2 if r == "glue-face-overlap" else n))
        out.append(Stratum("K-K/" + r + "/rot", "hyp", gen.with_variant(rotated(kk(r))), n // 2))
    return out
