"""C02 - flat primitive vs convex polygon/polyhedron intersection is exact."""
from fractions import Fraction as F
from hypothesis import strategies as st, assume

from ..common import lib
from ..engine import Fail, Stratum
from .. import exact as X, bridge as B, gen, genbody as GB, admit as A

ID = "C02"
WITNESS = ("eps", "round")
RULE = (
    "K: generated convex polygon (3-8 vertices) or polyhedron (tetrahedra, boxes, parallelepipeds, prisms, "
    "pyramids, bipyramids, hulls) in arbitrary lattice pose; f: Point at each feature type, Line/HalfLine/Segment "
    "through every ordered pair of feature types {vertex, edge point, edge carrier beyond the end, face point, "
    "face plane outside the face, interior, exterior lattice point}, Plane through feature triples and in special "
    "position (face plane, parallel inside/outside, tangent at a vertex/edge), 1-D flats on a supporting line of a "
    "face at one of its vertices inside the face plane (touching, stopping short, starting beyond); one Hypothesis run per (body kind, "
    "flat kind, feature recipe). intersection(f,K), intersection(K,f), K.intersection(f) and f.intersection(K) are "
    "compared with the exact vertex enumeration of hrep(f)+hrep(K) (kind by dimension, vertex set within 1e-7). "
    "Helpers: get_segment_from_point_list on generated collinear lists equals the extreme-point segment; the two "
    "*_intersection_point_set helpers return only points on the segment and on the body's boundary. "
    "Extra strata use small bodies whose vertices or cross-section points have colliding Point hashes (coordinates -1 / -2 "
    "beside 0 / 1; hash(-1.0) == hash(-2.0) in CPython), cut by coordinate planes and by flats through their features. "
    "non-trivial = f meets K, or f is coplanar with the polygon/a face, or passes through a vertex or along an "
    "edge (exact classification); each case also draws int/float coordinates, a constructor form for f and a vertex-list rotation / face order and negation pattern for K; distinct = distinct (f, K)."
)
ASSUMPTIONS = [
    "float coordinates; comparator 1e-7",
    "helper point-set functions: only validity of returned points is asserted (their docstrings promise no completeness)",
    "failing cases are reported only inside the admission domain (exact margins > 1e-3, run-time tolerance/rounding witness)",
]

FEATS = ("V", "E", "E+", "F", "F+", "I", "X")


def classify(f, K, r):
    """exact relation tags"""
    tags = []
    verts = K[1]
    if f[0] in ("L", "H", "S"):
        p = f[1]
        d = X.sub(f[2], f[1]) if f[0] == "S" else f[2]
        if any(X.on_line(v, p, d) for v in verts):
            tags.append("thruV")
        for a, b in X.edges_of(K):
            if X.on_line(a, p, d) and X.on_line(b, p, d):
                tags.append("alongE")
                break
        planes = [(K[1][0], X.poly_normal(K[1]))] if K[0] == "G" else [(K[1][f_[2][0]], f_[0]) for f_ in K[2]]
        for q, n in planes:
            if X.dot(n, d) == 0 and X.dot(n, X.sub(p, q)) == 0:
                tags.append("inFacePlane")
                break
    elif f[0] == "PL":
        cnt = sum(1 for v in verts if X.dot(f[2], X.sub(v, f[1])) == 0)
        if cnt:
            tags.append("thru%dV" % min(cnt, 3))
    elif f[0] == "P":
        H = X.hrep(K)
        if X.feasible(f[1], H) and X.min_margin(f[1], [h for h in H]) is not None:
            tight = sum(1 for a, b, k in H if X.dot(a, f[1]) == b and k == "<")
            tags.append("boundary" if tight else "interior")
    return tags


def check(case, ctx):
    G = lib()
    if case[0] == "HELPER":
        return check_helper(case, ctx, G)
    f, K, tag = case[0], case[1], case[2]
    var = case[3] if len(case) > 3 else B.DEFAULT_VAR
    r = X.inter(f, K)
    tags = classify(f, K, r)
    cls = "%s-%s:%s%s" % (f[0], K[0], B.kind_name(r), ("/" + "+".join(tags)) if tags else "")
    ctx.cls(cls)
    if r is not None or tags:
        ctx.nontrivial((f, K))
    ctx.sample(cls, case, B.kind_name(r))
    e = B.fdesc(r)
    of, oK = B.build_var(f, K, var)
    calls = [
        ("intersection(f,K)", G.intersection, (of, oK)),
        ("intersection(K,f)", G.intersection, (oK, of)),
        ("K.intersection(f)", oK.intersection, (of,)),
    ]
    if f[0] != "P":
        calls.append(("f.intersection(K)", of.intersection, (oK,)))
    facts = {"pair": "%s-%s" % (f[0], K[0]), "expected": B.kind_name(r), "tags": tags}
    for name, fn, args in calls:
        s, val = B.call(fn, *args)
        if s == "raise":
            raise Fail("%s [%s,%s] raises %s" % (name, f[0], K[0], B.exc_sig(val)), {"error": repr(val), "expected": e}, facts)
        g = B.denote(val)
        why = B.same_set(e, g)
        if why:
            raise Fail("%s [%s,%s] wrong: %s" % (name, f[0], K[0], why), {"expected": e, "got": g}, facts)
    if f[0] == "S":
        helper_points(G, f, K, of, oK, facts)


def helper_points(G, f, K, of, oK, facts):
    """validity of the exported point-set helpers on this (segment, body) pair"""
    fn = G.get_segment_convexpolygon_intersection_point_set if K[0] == "G" else G.get_segment_convexpolyhedron_intersection_point_set
    s, val = B.call(fn, of, oK)
    if s == "raise":
        raise Fail("%s raises %s" % (fn.__name__, B.exc_sig(val)), {"error": repr(val)}, facts)
    Hs = X.hrep(f)
    HK = X.hrep(K)
    for p in val:
        if not isinstance(p, G.Point):
            raise Fail("%s returns a non-Point" % fn.__name__, {"got": repr(p)}, facts)
        q = tuple(F(c) for c in B._xyz(p))
        # on the segment and on the body's boundary, within 1e-7
        def viol(H, strict_boundary):
            worst = 0.0
            tight = False
            for a, b, k in H:
                v = float(X.dot(a, q) - b) / (float(X.dot(a, a)) ** 0.5)
                if k == "=":
                    worst = max(worst, abs(v))
                else:
                    worst = max(worst, v)
                    if abs(v) <= 1e-7:
                        tight = True
            return worst, tight
        w1, _ = viol(Hs, False)
        w2, tight = viol(HK, True)
        if w1 > 1e-7 or w2 > 1e-7:
            raise Fail("%s returns a point that is not on both operands" % fn.__name__, {"point": B._xyz(p)}, facts)
        if not tight:
            raise Fail("%s returns a point that is not on the body's boundary" % fn.__name__, {"point": B._xyz(p)}, facts)


def check_helper(case, ctx, G):
    _k, p, d, ts = case
    cls = "get_segment_from_point_list/%d" % len(ts)
    ctx.cls(cls)
    ctx.nontrivial(case)
    ctx.sample(cls, case)
    pts = [X.add(p, X.mul(t, d)) for t in ts]
    lo, hi = min(ts), max(ts)
    e = ("S", X.fl(X.add(p, X.mul(lo, d))), X.fl(X.add(p, X.mul(hi, d))))
    facts = {"helper": "get_segment_from_point_list"}
    s, val = B.call(G.get_segment_from_point_list, [B.pt(q) for q in pts])
    if s == "raise":
        raise Fail("get_segment_from_point_list raises %s" % B.exc_sig(val), {"error": repr(val)}, facts)
    why = B.same_set(e, B.denote(val))
    if why:
        raise Fail("get_segment_from_point_list wrong: %s" % why, {"expected": e, "got": B.denote(val)}, facts)


def admit(case, fail):
    if case[0] == "HELPER":
        return None
    f, K = case[0], case[1]
    return A.body_case_margin(f, K, X.inter(f, K)).reason()


@st.composite
def case_for(draw, kK, kf, f1, f2=None, f3=None):
    K = draw(GB.body(kK))
    f = draw(GB.flat_vs_body(K, kf, f1, f2, f3))
    return (f, K, "%s-%s-%s" % (f1, f2, f3))


@st.composite
def case_special_plane(draw, kK, recipe):
    K = draw(GB.body(kK))
    return (draw(GB.special_plane(K, recipe)), K, recipe)


@st.composite
def case_tangent(draw, kK, kf):
    K = draw(GB.body(kK))
    return (draw(GB.tangent_in_face(K, kf)), K, "tangent-in-face")


@st.composite
def case_free(draw, kK, kf):
    K = draw(GB.body(kK))
    return (draw(gen.free_flat(kf)), K, "free")


@st.composite
def case_quirk(draw, kK, kf):
    """bodies with vertices (and cross-section points) whose Point hashes collide (coordinates -1 / -2 next to
    0 / 1, hash(-1.0) == hash(-2.0) in CPython): results must not lose or merge such points"""
    K = draw(GB.quirk_polyhedron() if kK == "K" else GB.quirk_polygon())
    if kf == "PL" and kK == "K" and draw(st.booleans()):
        # a coordinate plane at 0 or 1 (or through the colliding vertices) cutting the body
        i = draw(st.integers(0, 2))
        e = [F(0)] * 3
        e[i] = F(draw(st.sampled_from((1, -1, 2))))
        q = [F(draw(st.sampled_from((-1, -2, 0, 1)))) for _ in range(3)]
        q[i] = F(draw(st.sampled_from((0, 1, 0, 1, -1, -2, F(1, 2)))))
        return (("PL", tuple(q), tuple(e)), K, "quirk/axis-plane")
    fts = ("V", "V", "E", "F", "I", "X")
    f = draw(GB.flat_vs_body(K, kf, draw(st.sampled_from(fts)), draw(st.sampled_from(fts)), draw(st.sampled_from(fts))))
    return (f, K, "quirk")


@st.composite
def helper_case(draw):
    p = draw(gen.lattice_point(5))
    d = draw(gen.direction(3))
    k = draw(st.integers(2, 6))
    ts = [draw(st.sampled_from((F(-2), F(-1), F(-1, 2), F(0), F(1, 4), F(1, 2), F(1), F(3, 2), F(2), F(3)))) for _ in range(k)]
    assume(ts[0] != ts[1])
    return ("HELPER", p, d, tuple(ts))


PLANE_TRIPLES = (("V", "V", "V"), ("E", "E", "E"), ("V", "E", "X"), ("I", "X", "X"), ("V", "V", "I"), ("V", "V", "X"), ("F", "F+", "X"), ("V", "X", "X"))


def strata(tier):
    q = tier == "quick"
    out = []
    for kK in ("G", "K"):
        n = 40 if q else 1500
        for ft in FEATS:
            out.append(Stratum("P-%s/%s" % (kK, ft), "hyp", gen.with_variant(case_for(kK, "P", ft)), n))
        n = 14 if q else 500
        for kf in ("L", "H", "S"):
            for f1 in FEATS:
                for f2 in FEATS:
                    out.append(Stratum("%s-%s/%s-%s" % (kf, kK, f1, f2), "hyp", gen.with_variant(case_for(kK, kf, f1, f2)), n))
            out.append(Stratum("%s-%s/free" % (kf, kK), "hyp", gen.with_variant(case_free(kK, kf)), n * 2))
            out.append(Stratum("%s-%s/tangent-in-face" % (kf, kK), "hyp", gen.with_variant(case_tangent(kK, kf)), n * 4))
        n = 40 if q else 1500
        for tr in PLANE_TRIPLES:
            out.append(Stratum("PL-%s/%s" % (kK, "-".join(tr)), "hyp", gen.with_variant(case_for(kK, "PL", *tr)), n))
        for rec in ("face", "parallel-in", "parallel-out", "tangent-V", "tangent-E") + (("cap-V", "tangent-far-V") if kK == "K" else ()):
            out.append(Stratum("PL-%s/%s" % (kK, rec), "hyp", gen.with_variant(case_special_plane(kK, rec)), n))
        out.append(Stratum("PL-%s/free" % kK, "hyp", gen.with_variant(case_free(kK, "PL")), n))
        for kf in ("P", "L", "H", "S", "PL"):
            out.append(Stratum("%s-%s/hash-quirk" % (kf, kK), "hyp", gen.with_variant(case_quirk(kK, kf)), (60 if kf == "PL" else 30) if q else 1500))
    out.append(Stratum("helper/get_segment_from_point_list", "hyp", helper_case(), 300 if q else 10000))
    return out
