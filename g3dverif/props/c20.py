"""C20 - queries are pure and composite objects own their data (histories)."""
import copy
import math
from fractions import Fraction as F
from hypothesis import strategies as st

from ..common import lib
from ..engine import Fail, Stratum, make_history_machine
from .. import exact as X, bridge as B, gen, admit as A

ID = "C20"
WITNESS = ("eps", "round")
RULE = (
    "rule-based state machine holding a pool of shared mutable Points and Vectors (lattice values) and of objects "
    "built from them: Segment / HalfLine from two Points or Point+Vector, Line from two Points, triangles from three "
    "shared Points, Parallelogram / Parallelepiped from a shared base Point and Vectors, tetrahedra from four shared "
    "polygons, prisms / bipyramids / pyramids with 7-9 faces, negations -p of pool polygons, edges handed out by polygon.segments(), plus free Planes and Lines. "
    "Rules: construct; mutate a shared argument in place (Point.move, p.x = v, "
    "p[i] = v, vec[i] = v, move of a shared polygon, move of any pool Segment / HalfLine / polygon); a burst of membership queries of every pool point on each new 7-9-face body; run one of the queries of the statement (intersection, in, "
    "distance, angle, parallel, orthogonal, ==, hash, repr, length, area, volume) on an ordered pair of pool "
    "objects, and bursts of intersection / membership queries among a Segment, the Lines and the HalfLines through the same two pool points; "
    "deepcopy an object and mutate the copy or the original. Oracle: the public-attribute snapshot of both "
    "operands is identical before and after every query; the query's answer on the pool objects equals its answer "
    "on objects freshly built from the exact model (so it cannot depend on earlier queries); after mutating a "
    "constructor argument the snapshots and measures of all composites built from it are unchanged, they still denote "
    "their model, and the mutated argument equals and hashes like a fresh one (every pool object is hashed before "
    "each mutation); a deep copy is ==, hash-equal and snapshot-independent in both directions. non-trivial = history "
    "with a mutation of a shared argument after a construction from it, or >= 2 queries on the same operand; "
    "distinct = distinct history."
    ' Stratum repeat-history: a generated history (1-3 constructions, 2-5 queries / collinear bursts / copies) is evaluated twice in one process on freshly built objects and must pass both times (state kept inside the library between queries).'
)
ASSUMPTIONS = [
    "snapshots cover public observables only (coordinates, cached line/plane/centre, vertex tuples, face lists, point/edge sets, repr); private caches are not observed",
    "ownership is asserted only for the types the statement lists (not Plane, not Line(Point, Vector))",
    "failing histories are reported only inside the admission domain (exact margins of every queried pair > 1e-3; run-time tolerance/rounding witness)",
]

NP, NV = 8, 5
VALS = tuple(F(k, 2) for k in range(-8, 9))
MOVES = [tuple(F(c) for c in v) for v in [(1, 0, 0), (0, -1, 2), (2, 1, -1), (-3, 2, 1), (0, 0, -2)]] + [(F(1, 2), F(1, 2), F(-3, 2))]

DIST = {("P", "P"), ("P", "L"), ("L", "P"), ("L", "L"), ("P", "PL"), ("PL", "P"), ("L", "PL"), ("PL", "L")}
ANG = {("L", "L"), ("L", "PL"), ("PL", "L"), ("PL", "PL")}
IN_SUPPORT = {"P": ("L", "H", "S", "PL", "G", "K"), "S": ("L", "H", "S", "PL", "G", "K"), "H": ("L", "H", "PL"), "L": ("PL",), "G": ("PL", "K")}
GEO = ("P", "L", "H", "S", "PL", "G", "K")


# ---------------------------------------------------------------- snapshots of public observables
def snap(o, depth=0):
    G = lib()
    if o is None or isinstance(o, (int, float, str, bool, F)):
        return o
    if isinstance(o, G.Point):
        pv = o.pv()
        return ("Point", o.x, o.y, o.z, (pv[0], pv[1], pv[2]))
    if isinstance(o, G.Vector):
        return ("Vector", o[0], o[1], o[2])
    if isinstance(o, G.Line):
        return ("Line", snap(o.sv), snap(o.dv))
    if isinstance(o, G.Plane):
        return ("Plane", snap(o.p), snap(o.n))
    if isinstance(o, G.Segment):
        return ("Segment", snap(o.start_point), snap(o.end_point), snap(o.line))
    if isinstance(o, G.HalfLine):
        return ("HalfLine", snap(o.point), snap(o.vector), snap(o.line))
    if isinstance(o, G.ConvexPolygon):
        return ("ConvexPolygon", tuple(snap(p) for p in o.points), snap(o.plane), snap(o.center_point))
    if isinstance(o, G.ConvexPolyhedron):
        return (
            "ConvexPolyhedron",
            tuple(snap(f) for f in o.convex_polygons),
            tuple(sorted(repr(snap(p)) for p in o.point_set)),
            tuple(sorted(repr(tuple(sorted((repr(snap(s.start_point)), repr(snap(s.end_point)))))) for s in o.segment_set)),
            snap(o.center_point),
        )
    return ("?", repr(o))


def full_snap(o):
    return (snap(o), repr(o))


def measures(o):
    """the measures of an object, as far as it has any (part of what a composite must keep when a constructor
    argument is mutated)"""
    G = lib()
    out = []
    if isinstance(o, (G.Segment, G.ConvexPolygon, G.ConvexPolyhedron)):
        out.append(round(o.length(), 9))
    if isinstance(o, (G.ConvexPolygon, G.ConvexPolyhedron)):
        out.append(round(o.area(), 9))
    if isinstance(o, G.ConvexPolyhedron):
        out.append(round(o.volume(), 9))
        out.append(round(G.volume(o), 9))
    return out


# ---------------------------------------------------------------- executor
class Entry(object):
    __slots__ = ("kind", "obj", "desc", "deps", "owns", "label")

    def __init__(self, kind, obj, desc, deps=(), owns=True, label=""):
        self.kind, self.obj, self.desc, self.deps, self.owns, self.label = kind, obj, desc, tuple(deps), owns, label


class Executor(object):
    def __init__(self, init):
        self.init = init
        self.pts = []  # Entry kind 'P'
        self.vecs = []  # Entry kind 'V'
        self.objs = []  # composites and free objects
        self.facts = {}
        self.mutations_after_build = 0
        self.query_count = {}

    def guard(self, name, fn):
        s, v = B.call(fn)
        if s == "raise":
            raise Fail("%s raises %s" % (name, B.exc_sig(v)), {"error": repr(v)}, self.facts)
        return v

    def start(self):
        G = lib()
        _t, pcoords, vcoords = self.init
        for p in pcoords:
            self.pts.append(Entry("P", B.pt(p), ("P", tuple(p)), label="shared point"))
        for v in vcoords:
            self.vecs.append(Entry("V", B.vec(v), ("V", tuple(v)), label="shared vector"))
        # two free objects so that queries always have partners
        self.objs.append(Entry("PL", G.Plane(B.pt((0, 0, F(1, 2))), B.vec((1, -1, 2))), ("PL", (F(0), F(0), F(1, 2)), (F(1), F(-1), F(2))), owns=False, label="free plane"))
        self.objs.append(Entry("L", G.Line(B.pt((1, 0, -1)), B.vec((0, 2, 1))), ("L", (F(1), F(0), F(-1)), (F(0), F(2), F(1))), owns=False, label="free line"))
        # objects along a negative coordinate axis with a direction of length exactly 1 (nothing to normalise, sign to fix)
        ax = sum(int(c * 2) for c in pcoords[0]) % 3
        d = [F(0)] * 3
        d[ax] = F(-1)
        d = tuple(d)
        p0 = (F(1), F(2), F(-1, 2))
        self.objs.append(Entry("L", G.Line(B.pt(p0), B.pt(X.add(p0, d))), ("L", p0, d), owns=False, label="free line along a negative axis, unit direction"))
        self.objs.append(Entry("H", G.HalfLine(B.pt(p0), B.vec(d)), ("H", p0, d), owns=False, label="free half-line along a negative axis, unit direction"))

    # ---- models
    def P(self, i):
        return self.pts[i % len(self.pts)]

    def V(self, i):
        return self.vecs[i % len(self.vecs)]

    def add(self, e):
        if len(self.objs) < 14:
            self.objs.append(e)
            self.check_entry(e, "just constructed")

    def all_entries(self):
        return self.pts + self.objs

    def check_entry(self, e, when):
        """a composite denotes its model (independent of what happened to its constructor arguments)"""
        why = B.same_set(B.fdesc(e.desc), B.denote(e.obj), 1e-9)
        if why:
            raise Fail("%s (%s) no longer denotes the set it was built as, %s: %s" % (e.kind, e.label, when, why), {"model": e.desc, "got": B.denote(e.obj)}, self.facts)

    # ---- steps
    def apply(self, step):
        G = lib()
        name = step[0]
        a = step[1:]
        self.facts = {"step": step}
        if name == "mkseg":
            p, q = self.P(a[0]), self.P(a[1])
            if tuple(p.desc[1]) == tuple(q.desc[1]):
                return
            o = self.guard("Segment(P,P)", lambda: G.Segment(p.obj, q.obj))
            self.add(Entry("S", o, ("S", p.desc[1], q.desc[1]), (p, q), label="Segment(Point, Point)"))
        elif name == "mksegv":
            p, v = self.P(a[0]), self.V(a[1])
            if X.is_zero(v.desc[1]):
                return
            o = self.guard("Segment(P,V)", lambda: G.Segment(p.obj, v.obj))
            self.add(Entry("S", o, ("S", p.desc[1], X.add(p.desc[1], v.desc[1])), (p, v), label="Segment(Point, Vector)"))
        elif name == "mkhl":
            p, q = self.P(a[0]), self.P(a[1])
            if tuple(p.desc[1]) == tuple(q.desc[1]):
                return
            o = self.guard("HalfLine(P,P)", lambda: G.HalfLine(p.obj, q.obj))
            self.add(Entry("H", o, ("H", p.desc[1], X.sub(q.desc[1], p.desc[1])), (p, q), label="HalfLine(Point, Point)"))
        elif name == "mkhlv":
            p, v = self.P(a[0]), self.V(a[1])
            if X.is_zero(v.desc[1]):
                return
            o = self.guard("HalfLine(P,V)", lambda: G.HalfLine(p.obj, v.obj))
            self.add(Entry("H", o, ("H", p.desc[1], v.desc[1]), (p, v), label="HalfLine(Point, Vector)"))
        elif name == "mkline":
            p, q = self.P(a[0]), self.P(a[1])
            if tuple(p.desc[1]) == tuple(q.desc[1]):
                return
            o = self.guard("Line(P,P)", lambda: G.Line(p.obj, q.obj))
            self.add(Entry("L", o, ("L", p.desc[1], X.sub(q.desc[1], p.desc[1])), (p, q), label="Line(Point, Point)"))
        elif name == "mktri":
            ps = [self.P(a[0]), self.P(a[1]), self.P(a[2])]
            d = [p.desc[1] for p in ps]
            if X.is_zero(X.cross(X.sub(d[1], d[0]), X.sub(d[2], d[0]))):
                return
            o = self.guard("ConvexPolygon(P,P,P)", lambda: G.ConvexPolygon(tuple(p.obj for p in ps)))
            self.add(Entry("G", o, ("G", list(d)), ps, label="ConvexPolygon(shared points)"))
        elif name == "mkpgram":
            p, v, w = self.P(a[0]), self.V(a[1]), self.V(a[2])
            if X.is_zero(X.cross(v.desc[1], w.desc[1])):
                return
            o = self.guard("Parallelogram", lambda: G.Parallelogram(p.obj, v.obj, w.obj))
            b = p.desc[1]
            self.add(Entry("G", o, ("G", [b, X.add(b, v.desc[1]), X.add(X.add(b, v.desc[1]), w.desc[1]), X.add(b, w.desc[1])]), (p, v, w), label="Parallelogram(shared point, vectors)"))
        elif name == "mkppd":
            p, u, v, w = self.P(a[0]), self.V(a[1]), self.V(a[2]), self.V(a[3])
            if X.det3(u.desc[1], v.desc[1], w.desc[1]) == 0:
                return
            o = self.guard("Parallelepiped", lambda: G.Parallelepiped(p.obj, u.obj, v.obj, w.obj))
            b = p.desc[1]
            pts = [X.add(b, X.add(X.mul(i, u.desc[1]), X.add(X.mul(j, v.desc[1]), X.mul(k, w.desc[1])))) for i in (0, 1) for j in (0, 1) for k in (0, 1)]
            self.add(Entry("K", o, X.make_K(pts), (p, u, v, w), label="Parallelepiped(shared point, vectors)"))
        elif name == "mktetra":
            ps = [self.P(a[0]), self.P(a[1]), self.P(a[2]), self.P(a[3])]
            d = [p.desc[1] for p in ps]
            if X.det3(X.sub(d[1], d[0]), X.sub(d[2], d[0]), X.sub(d[3], d[0])) == 0:
                return
            if len(self.objs) > 9:
                return
            faces = []
            for tri in ((0, 1, 2), (0, 1, 3), (0, 2, 3), (1, 2, 3)):
                f = self.guard("ConvexPolygon", lambda: G.ConvexPolygon(tuple(ps[i].obj for i in tri)))
                e = Entry("G", f, ("G", [d[i] for i in tri]), [ps[i] for i in tri], label="ConvexPolygon(shared points), face of a tetrahedron")
                faces.append(e)
                self.add(e)
            o = self.guard("ConvexPolyhedron(shared polygons)", lambda: G.ConvexPolyhedron(tuple(f.obj for f in faces)))
            self.add(Entry("K", o, X.make_K(d), faces, label="ConvexPolyhedron(shared polygons)"))
        elif name == "mkbody":
            # bodies with more faces than a box: hexagonal prism, pentagonal bipyramid, octahedron, heptagonal pyramid
            if len([e for e in self.objs if e.kind == "K"]) >= 3:
                return
            hexa = [(1, 0), (2, 1), (2, 2), (1, 3), (0, 2), (0, 1)]
            penta = [(0, 0), (2, 0), (3, 1), (2, 3), (0, 2)]
            hepta = [(1, 0), (2, 0), (3, 1), (3, 2), (2, 3), (1, 3), (0, 1)]
            which = a[0] % 4
            t = (F(a[1] % 5 - 2), F(a[2] % 5 - 2), F(a[1] % 3 - 1, 2))
            if which == 0:
                pts = [(F(x), F(y), F(0)) for x, y in hexa] + [(F(x) + 1, F(y), F(2)) for x, y in hexa]
            elif which == 1:
                pts = [(F(x), F(y), F(0)) for x, y in penta] + [(F(3, 2), F(1), F(2)), (F(1), F(1), F(-3, 2))]
            elif which == 2:
                pts = [(F(2), F(0), F(0)), (F(-2), F(0), F(0)), (F(0), F(2), F(0)), (F(0), F(-2), F(0)), (F(0), F(0), F(1)), (F(0), F(0), F(-3))]
            else:
                pts = [(F(x), F(y), F(0)) for x, y in hepta] + [(F(3, 2), F(3, 2), F(3))]
            K = X.translate(X.make_K(pts), t)
            o = self.guard("ConvexPolyhedron (prism / bipyramid)", lambda: B.build(K, float, a[2] % 4))
            e_ = Entry("K", o, K, (), label="polyhedron with %d faces" % len(K[2]))
            self.add(e_)
            if e_ in self.objs:
                # a burst of membership queries with every pool point: none may change the body (face order included)
                for pe in self.pts:
                    before = full_snap(o)
                    got = self.guard("P in K", lambda: pe.obj in o)
                    if full_snap(o) != before:
                        raise Fail("in [P,K] changed an observable attribute of its second operand", {"before": repr(before)[:300], "after": repr(full_snap(o))[:300]}, {"query": "in", "a": pe.desc, "b": K, "pair": "P,K"})
                    if bool(got) is not X.subset(pe.desc, K):
                        raise Fail("P in K wrong on a pool body", {"point": pe.desc}, {"query": "in", "a": pe.desc, "b": K, "pair": "P,K"})
        elif name == "mkneg":
            # -polygon is a polygon in its own right: it must own its data like any other (a later move of the
            # original, or of the negation, must leave the other one where it is)
            polys = [e for e in self.objs if e.kind == "G"]
            if not polys:
                return
            src = polys[a[0] % len(polys)]
            o = self.guard("-ConvexPolygon", lambda: -src.obj)
            self.add(Entry("G", o, ("G", list(src.desc[1])), (src,), label="negation of a pool polygon"))
        elif name == "mksub":
            # objects handed out by accessors of a pool object: an edge of a polygon, a face of a polyhedron
            srcs = [e for e in self.objs if e.kind in ("G", "K")]
            if not srcs:
                return
            src = srcs[a[0] % len(srcs)]
            if src.kind == "G":
                segs = self.guard("segments()", lambda: list(src.obj.segments()))
                sg = segs[a[1] % len(segs)]
                d = ("S", tuple(F(c) for c in B._xyz(sg.start_point)), tuple(F(c) for c in B._xyz(sg.end_point)))
                self.add(Entry("S", sg, d, (src,), owns=True, label="edge handed out by ConvexPolygon.segments()"))
        elif name.startswith("mut"):
            self.mutate(name, a)
        elif name == "query":
            self.query(a)
        elif name == "collinear":
            self.collinear_burst(a)
        elif name == "copy":
            self.deepcopy(a)
        else:
            raise ValueError(name)

    # ---- mutation of shared arguments
    def mutate(self, name, a):
        G = lib()
        owners_before = [(e, (full_snap(e.obj), measures(e.obj))) for e in self.objs if e.owns]
        args_before = [(e, full_snap(e.obj)) for e in self.pts + self.vecs]
        target = None
        # every object has been "queried before": whatever an implementation memoises is memoised now
        for e in self.all_entries():
            self.guard("hash", lambda: hash(e.obj))
        if name == "mutP_move":
            target = self.P(a[0])
            v = MOVES[a[1] % len(MOVES)]
            self.guard("Point.move", lambda: target.obj.move(B.vec(v)))
            target.desc = ("P", X.add(target.desc[1], v))
        elif name == "mutP_attr":
            target = self.P(a[0])
            val = VALS[a[2] % len(VALS)]
            setattr(target.obj, "xyz"[a[1] % 3], float(val))
            c = list(target.desc[1])
            c[a[1] % 3] = val
            target.desc = ("P", tuple(c))
        elif name == "mutP_item":
            target = self.P(a[0])
            val = VALS[a[2] % len(VALS)]
            target.obj[a[1] % 3] = float(val)
            c = list(target.desc[1])
            c[a[1] % 3] = val
            target.desc = ("P", tuple(c))
        elif name == "mutV_item":
            target = self.V(a[0])
            val = VALS[a[2] % len(VALS)]
            target.obj[a[1] % 3] = float(val)
            c = list(target.desc[1])
            c[a[1] % 3] = val
            target.desc = ("V", tuple(c))
        elif name == "mut_objmove":
            cands = [e for e in self.objs if e.kind in ("S", "H", "G", "L") and e.owns]
            if not cands:
                return
            target = cands[a[0] % len(cands)]
            v = MOVES[a[1] % len(MOVES)]
            self.guard("%s.move" % target.kind, lambda: target.obj.move(B.vec(v)))
            target.desc = X.translate(target.desc, v)
        elif name == "mut_polymove":
            polys = [e for e in self.objs if e.kind == "G"]
            if not polys:
                return
            target = polys[a[0] % len(polys)]
            v = MOVES[a[1] % len(MOVES)]
            self.guard("ConvexPolygon.move", lambda: target.obj.move(B.vec(v)))
            target.desc = X.translate(target.desc, v)
        else:
            raise ValueError(name)
        dependants = 0
        for e, before in owners_before:
            if e is target:
                continue
            if target in e.deps:
                dependants += 1
            after = (full_snap(e.obj), measures(e.obj))
            if after != before:
                raise Fail(
                    "mutating a %s changed a %s built from it (%s)" % (target.label, e.kind, e.label) if target in e.deps else "mutating a %s changed an unrelated %s (%s)" % (target.label, e.kind, e.label),
                    {"before": repr(before)[:300], "after": repr(after)[:300]},
                    self.facts,
                )
            self.check_entry(e, "after a constructor argument was mutated")
        # moving a composite must leave the shared Points and Vectors it was built from where they are
        for e, before in args_before:
            if e is target:
                continue
            if full_snap(e.obj) != before:
                raise Fail("mutating a %s changed a %s" % (target.label, e.label), {"before": repr(before)[:200], "after": repr(full_snap(e.obj))[:200]}, self.facts)
        if dependants:
            self.mutations_after_build += 1
        # the mutated argument itself answers like a fresh object with the new value (no stale memo)
        if target.kind in ("P", "V"):
            fresh = self.fresh(target)
            if self.guard("==", lambda: target.obj == fresh) is not True:
                raise Fail("a %s edited in place is not equal to a fresh one with the same coordinates" % target.label, {"model": target.desc}, self.facts)
            if self.guard("hash", lambda: hash(target.obj)) != self.guard("hash", lambda: hash(fresh)):
                raise Fail("a %s edited in place hashes unlike a fresh one with the same coordinates" % target.label, {"model": target.desc}, self.facts)
        if target.kind in ("G", "S", "H", "L"):
            self.check_entry(target, "after it was moved")
            fresh = self.fresh(target)
            if self.guard("==", lambda: target.obj == fresh) is not True or self.guard("==", lambda: fresh == target.obj) is not True:
                raise Fail("a %s moved in place is not equal to a fresh one at its new position" % target.kind, {"model": target.desc}, self.facts)
            if self.guard("hash", lambda: hash(target.obj)) != self.guard("hash", lambda: hash(fresh)):
                raise Fail("a %s moved in place hashes unlike a fresh one at its new position" % target.kind, {"model": target.desc}, self.facts)

    # ---- queries
    def fresh(self, e):
        if e.kind == "V":
            return B.vec(e.desc[1])
        return B.build(e.desc)

    def query(self, a):
        pool = self.all_entries()
        ea, eb = pool[a[1] % len(pool)], pool[a[2] % len(pool)]
        qn = ("intersection", "in", "distance", "angle", "parallel", "orthogonal", "eq", "hash", "repr", "measures")[a[0] % 10]
        self.query_pair(ea, eb, qn)

    def collinear_burst(self, a):
        """a Segment, the two Lines and the two HalfLines through the same two pool points (one carrier, both
        directions), queried against each other in every order: the operands lie on each other exactly, which is
        where an implementation hands back, re-orients or reuses an operand"""
        G = lib()
        p, q = self.P(a[0]), self.P(a[1])
        if tuple(p.desc[1]) == tuple(q.desc[1]):
            return
        d = X.sub(q.desc[1], p.desc[1])
        nd = X.mul(F(-1), d)
        es = [
            Entry("S", self.guard("Segment(P,P)", lambda: G.Segment(p.obj, q.obj)), ("S", p.desc[1], q.desc[1]), (p, q), label="Segment(Point, Point)"),
            Entry("L", self.guard("Line(P,P)", lambda: G.Line(p.obj, q.obj)), ("L", p.desc[1], d), (p, q), label="Line(Point, Point)"),
            Entry("L", self.guard("Line(P,P)", lambda: G.Line(q.obj, p.obj)), ("L", q.desc[1], nd), (p, q), label="Line(Point, Point)"),
            Entry("H", self.guard("HalfLine(P,P)", lambda: G.HalfLine(p.obj, q.obj)), ("H", p.desc[1], d), (p, q), label="HalfLine(Point, Point)"),
            Entry("H", self.guard("HalfLine(P,P)", lambda: G.HalfLine(q.obj, p.obj)), ("H", q.desc[1], nd), (p, q), label="HalfLine(Point, Point)"),
        ]
        for i, ea in enumerate(es):
            for j, eb in enumerate(es):
                if i != j:
                    self.query_pair(ea, eb, "intersection")
                    if ea.kind in IN_SUPPORT and eb.kind in IN_SUPPORT[ea.kind]:
                        self.query_pair(ea, eb, "in")
        for e in es[: 1 + a[2] % 3]:
            self.add(e)

    def query_pair(self, ea, eb, qn):
        G = lib()
        ka, kb = ea.kind, eb.kind
        if qn == "in" and not (ka in IN_SUPPORT and kb in IN_SUPPORT[ka]):
            qn = "intersection"
        if qn == "distance" and (ka, kb) not in DIST:
            qn = "eq"
        if qn in ("angle", "parallel", "orthogonal") and (ka, kb) not in ANG:
            qn = "hash"
        self.facts = {"query": qn, "a": ea.desc, "b": eb.desc, "pair": "%s,%s" % (ka, kb)}
        for e in (ea, eb):
            self.query_count[id(e)] = self.query_count.get(id(e), 0) + 1
        sa, sb = full_snap(ea.obj), full_snap(eb.obj)
        fa, fb = self.fresh(ea), self.fresh(eb)

        def run(x, y):
            if qn == "intersection":
                return ("set", B.denote(G.intersection(x, y)))
            if qn == "in":
                return ("bool", bool(x in y))
            if qn == "distance":
                return ("num", G.distance(x, y))
            if qn == "angle":
                return ("num", G.angle(x, y))
            if qn == "parallel":
                return ("bool", bool(G.parallel(x, y)))
            if qn == "orthogonal":
                return ("bool", bool(G.orthogonal(x, y)))
            if qn == "eq":
                return ("bool", (x == y) is True) if type(x) is type(y) else ("bool", None)
            if qn == "hash":
                return ("hash", (hash(x), hash(y)))
            if qn == "repr":
                return ("str", (repr(x), repr(y)))
            if qn == "measures":
                out = []
                for z in (x, y):
                    for m in ("length", "area", "volume"):
                        if hasattr(z, m) and not isinstance(z, G.Vector):
                            out.append(getattr(z, m)())
                return ("nums", out)

        got = self.guard("%s on pool objects [%s,%s]" % (qn, ka, kb), lambda: run(ea.obj, eb.obj))
        ref = self.guard("%s on fresh objects [%s,%s]" % (qn, ka, kb), lambda: run(fa, fb))
        if full_snap(ea.obj) != sa or full_snap(eb.obj) != sb:
            which = "first" if full_snap(ea.obj) != sa else "second"
            raise Fail(
                "%s [%s,%s] changed an observable attribute of its %s operand" % (qn, ka, kb, which),
                {"before": repr(sa if which == "first" else sb)[:300], "after": repr(full_snap(ea.obj) if which == "first" else full_snap(eb.obj))[:300]},
                self.facts,
            )
        self._qa, self._qb = ea.obj, eb.obj
        self.compare(qn, ka, kb, got, ref)
        if qn == "intersection":
            e = B.fdesc(X.inter(ea.desc, eb.desc)) if ka in GEO and kb in GEO else None
            if ka in GEO and kb in GEO:
                why = B.same_set(e, got[1])
                if why:
                    raise Fail("intersection [%s,%s] on pool objects differs from the exact set: %s" % (ka, kb, why), {"expected": e, "got": got[1]}, self.facts)

    def compare(self, qn, ka, kb, got, ref):
        t = got[0]
        bad = None
        if t == "set":
            bad = B.same_set(ref[1], got[1])
        elif t == "num":
            if not all(isinstance(x, (int, float)) and not isinstance(x, bool) for x in (got[1], ref[1])):
                bad = "not a number: %r vs %r" % (got[1], ref[1])
            elif abs(got[1] - ref[1]) > 1e-9 * max(1.0, abs(ref[1])):
                bad = "%r vs %r" % (got[1], ref[1])
        elif t == "nums":
            if not all(isinstance(x, (int, float)) and not isinstance(x, bool) for x in list(got[1]) + list(ref[1])):
                bad = "not numbers: %r vs %r" % (got[1], ref[1])
            elif len(got[1]) != len(ref[1]) or any(abs(x - y) > 1e-9 * max(1.0, abs(y)) for x, y in zip(got[1], ref[1])):
                bad = "%r vs %r" % (got[1], ref[1])
        elif t == "str":
            # repr shows representation details (set order, first vertex) that legitimately differ between two
            # constructions of the same set; it is only required to be stable on the same objects
            again = (repr(self._qa), repr(self._qb))
            if got[1] != again:
                bad = "repr of the same unchanged object differs between two calls"
        else:
            if got[1] != ref[1]:
                bad = "%r vs %r" % (got[1], ref[1])
        if bad:
            raise Fail(
                "%s [%s,%s] answers differently on long-lived pool objects than on freshly built ones" % (qn, ka, kb),
                {"difference": bad, "pool": repr(got[1])[:300], "fresh": repr(ref[1])[:300]},
                self.facts,
            )

    # ---- deep copies
    def deepcopy(self, a):
        G = lib()
        pool = self.all_entries()
        e = pool[a[0] % len(pool)]
        self.facts = {"copy": e.kind, "label": e.label}
        c = self.guard("deepcopy", lambda: copy.deepcopy(e.obj))
        if type(c) is not type(e.obj):
            raise Fail("deepcopy of a %s is a %s" % (e.kind, type(c).__name__), {}, self.facts)
        if self.guard("==", lambda: c == e.obj) is not True or self.guard("==", lambda: e.obj == c) is not True:
            raise Fail("a deep copy of a %s is not equal to the original" % e.kind, {}, self.facts)
        if self.guard("hash", lambda: hash(c)) != self.guard("hash", lambda: hash(e.obj)):
            raise Fail("a deep copy of a %s hashes differently" % e.kind, {}, self.facts)
        # (repr is not compared between copy and original: a polyhedron's repr lists a set, whose iteration order
        # is a representation detail that a copy need not preserve)
        if snap(c) != snap(e.obj):
            raise Fail("a deep copy of a %s has different observable attributes" % e.kind, {}, self.facts)
        v = MOVES[a[2] % len(MOVES)]
        if X.is_zero(v):
            return
        before_o, before_c = full_snap(e.obj), full_snap(c)
        if a[1] % 2 == 0:
            self.guard("move (copy)", lambda: c.move(B.vec(v)))
            if full_snap(e.obj) != before_o:
                raise Fail("moving a deep copy of a %s changed the original" % e.kind, {}, self.facts)
        else:
            # move the original, the copy must stay; then move it back (exact lattice arithmetic)
            self.guard("move (original)", lambda: e.obj.move(B.vec(v)))
            if full_snap(c) != before_c:
                raise Fail("moving a %s changed its earlier deep copy" % e.kind, {}, self.facts)
            e.desc = X.translate(e.desc, v) if e.kind != "V" else e.desc
            if e.kind == "P":
                pass


def run_history(case):
    ex = Executor(case[1])
    ex.start()
    for s in case[2]:
        ex.apply(s)
    return ex


def account(case, ctx):
    init, steps = case[1], case[2]
    built = False
    mut_after = 0
    nq = 0
    for s in steps:
        if s[0].startswith("query"):
            s = ("query",) + tuple(s[1:])
        ctx.cls("step:" + s[0])
        if s[0].startswith("mk"):
            built = True
        elif s[0].startswith("mut") and built:
            mut_after += 1
        elif s[0] == "query":
            nq += 1
            ctx.cls("query:" + ("intersection", "in", "distance", "angle", "parallel", "orthogonal", "eq", "hash", "repr", "measures")[s[1] % 10])
    cls = "history/mut-after-build%d/queries%d" % (min(mut_after, 2), min(nq, 3))
    ctx.cls(cls)
    if mut_after >= 1 or nq >= 2:
        ctx.nontrivial(case)
    ctx.sample(cls, case)


def _outcome(case):
    try:
        run_history(case)
        return None
    except Fail as f:
        return f


def check(case, ctx):
    account(case, ctx)
    if case[0] == "HIST2":
        # the same history on freshly built objects, twice in one process: whatever the first evaluation leaves
        # behind inside the library (a module-level memo, a mutable default argument, a class attribute) is seen by
        # the second.  One signature for every way of failing, so that a failure whose details depend on how much
        # state has accumulated still reproduces as the same failure on re-evaluation and in the replay.
        o1 = _outcome(case)
        o2 = _outcome(case)
        if o1 is None and o2 is None:
            return
        f = o1 or o2
        when = "both evaluations fail" if (o1 is not None and o2 is not None) else "the first evaluation passes, the repeat fails" if o1 is None else "the first evaluation fails, the repeat passes"
        raise Fail("history evaluated twice in one process on fresh objects does not pass both times",
                   {"when": when, "first": o1.sig if o1 else None, "repeat": o2.sig if o2 else None, "detail": f.detail}, f.facts)
    run_history(case)


def admit(case, fail):
    """margins of the queried pair recorded in the failure"""
    f = fail.facts
    if "a" in f and "b" in f:
        a, b = f["a"], f["b"]
        if a[0] in GEO and b[0] in GEO:
            r = X.inter(a, b)
            if a[0] in X.FLAT and b[0] in X.FLAT:
                return A.flat_case_margin(a, b, r).reason()
            return A.body_case_margin(a, b, r).reason()
    return None


def _rules():
    ip = st.integers(0, NP - 1)
    iv = st.integers(0, NV - 1)
    io = st.integers(0, 30)
    rules = {
        "mkseg": (ip, ip), "mksegv": (ip, iv), "mkhl": (ip, ip), "mkhlv": (ip, iv), "mkline": (ip, ip),
        "mktri": (ip, ip, ip), "mkpgram": (ip, iv, iv), "mkppd": (ip, iv, iv, iv), "mktetra": (ip, ip, ip, ip),
        "mutP_move": (ip, st.integers(0, len(MOVES) - 1)),
        "mutP_attr": (ip, st.integers(0, 2), st.integers(0, len(VALS) - 1)),
        "mutP_item": (ip, st.integers(0, 2), st.integers(0, len(VALS) - 1)),
        "mutV_item": (iv, st.integers(0, 2), st.integers(0, len(VALS) - 1)),
        "mut_polymove": (io, st.integers(0, len(MOVES) - 1)),
        "mut_objmove": (io, st.integers(0, len(MOVES) - 1)),
        "mkneg": (io,),
        "mkbody": (io, io, io),
        "collinear": (ip, ip, io),
        "mksub": (io, io),
        "query": (st.integers(0, 9), io, io),
        "query2": (st.integers(0, 9), io, io),
        "query3": (st.integers(0, 9), io, io),
        "query4": (st.integers(0, 9), io, io),
        "copy": (io, st.integers(0, 1), st.integers(0, len(MOVES) - 1)),
    }
    lp = st.tuples(*[st.sampled_from(VALS)] * 3)
    init = st.tuples(st.just("POOL"), st.tuples(*[lp] * NP), st.tuples(*[st.tuples(*[st.sampled_from(VALS[4:13])] * 3)] * NV))
    return rules, init


def machine(ctx):
    import sys

    prop = sys.modules[__name__]
    rules, init = _rules()
    return make_history_machine(ctx, prop, rules, init, step_count=16)


@st.composite
def repeated_history(draw):
    """a short history, evaluated twice in one process by check(): ("HIST2", init, steps).  Weighted towards the
    steps that make the library compute (queries, collinear bursts) after a few constructions."""
    rules, init = _rules()
    i0 = draw(init)
    names_build = [n for n in rules if n.startswith("mk")]
    names_q = ["collinear", "query", "query", "collinear", "copy"]
    steps = []
    for _ in range(draw(st.integers(1, 3))):
        n = draw(st.sampled_from(names_build))
        steps.append((n,) + tuple(draw(x) for x in rules[n]))
    for _ in range(draw(st.integers(2, 5))):
        n = draw(st.sampled_from(names_q))
        steps.append((n,) + tuple(draw(x) for x in rules[n]))
    return ("HIST2", i0, tuple(steps))



_orig_apply = Executor.apply


def _apply(self, step):
    if step[0] in ("query2", "query3", "query4"):
        step = ("query",) + tuple(step[1:])
    return _orig_apply(self, step)


Executor.apply = _apply


def strata(tier):
    q = tier == "quick"
    return [
        Stratum("pool-history", "machine", machine, 900 if q else 20000),
        Stratum("repeat-history", "hyp", repeated_history(), 320 if q else 8000),
    ]
