"""C18 - Vector arithmetic is exact component algebra and preserves numeric type."""
import math
import numbers
from decimal import Decimal
from fractions import Fraction as F
from hypothesis import strategies as st, assume

from ..common import lib
from ..engine import Fail, Stratum
from .. import exact as X, bridge as B

ID = "C18"
RULE = (
    "(i) symbolic push: Vectors/Points whose coordinates are the indeterminates of a multivariate polynomial "
    "ring over Q (a user-defined ring type) are run through the real +, -, scalar * from both sides, unary -, "
    "dot, cross, Vector(P1,P2), Point.pv, Point.move; each resulting coordinate must equal the textbook "
    "polynomial and a.(axb), axb+bxa, |axb|^2-|a|^2|b|^2+(a.b)^2 must be the zero polynomial (these paths have "
    "no value-dependent branch, so one evaluation decides the formula for every commutative ring); "
    "(ii) generated vectors over int, Fraction, Decimal, float and the ring type: promotion of mixed "
    "constructor arguments (user type > Fraction > Decimal > float > int; also two Vectors built from one list object that is edited afterwards), result type preservation and "
    "exact equality with independently computed formulas (float: within 4 ulp of the term magnitudes); "
    "(iii) int/float/Fraction vectors of magnitude 1e-6..1e6: |normalized|=1 (1e-12), same direction, length "
    "vs exact sqrt (1e-12 rel), angle in [0,pi] equal to the atan2 reference (1e-7) - including long vectors (1e3..1e6) whose tips are a few units apart, i.e. angles of 1e-6..1e-3 rad and pi minus that -, also after a coordinate of an already measured vector was set with v[i]=x; zero() and unit vectors. "
    "non-trivial = non-symmetric inputs (mixed signs or mixed types); distinct = distinct inputs."
)
ASSUMPTIONS = [
    "Decimal is exercised for arithmetic only (no square roots), as the property states",
    "cross-type arithmetic between two vectors is limited to pairs Python itself can add (int with anything, same type otherwise)",
]


# ---------------------------------------------------------------- a user-defined commutative ring
class Poly(object):
    """multivariate polynomial over Q: {exponent tuple: Fraction}"""

    NV = 8
    __slots__ = ("t",)

    def __init__(self, x=0):
        if isinstance(x, Poly):
            self.t = dict(x.t)
        elif isinstance(x, dict):
            self.t = {k: v for k, v in x.items() if v != 0}
        elif isinstance(x, (numbers.Number, Decimal)) and not isinstance(x, bool):
            c = F(x)
            self.t = {(0,) * Poly.NV: c} if c != 0 else {}
        else:
            raise TypeError("cannot make a Poly from %r" % (x,))

    @staticmethod
    def var(i):
        e = [0] * Poly.NV
        e[i] = 1
        return Poly({tuple(e): F(1)})

    def _coerce(self, o):
        if isinstance(o, Poly):
            return o
        if isinstance(o, (int, F)) and not isinstance(o, bool):
            return Poly(o)
        return None

    def __add__(self, o):
        o = self._coerce(o)
        if o is None:
            return NotImplemented
        t = dict(self.t)
        for k, v in o.t.items():
            t[k] = t.get(k, 0) + v
        return Poly(t)

    __radd__ = __add__

    def __neg__(self):
        return Poly({k: -v for k, v in self.t.items()})

    def __sub__(self, o):
        o = self._coerce(o)
        if o is None:
            return NotImplemented
        return self + (-o)

    def __rsub__(self, o):
        o = self._coerce(o)
        if o is None:
            return NotImplemented
        return o + (-self)

    def __mul__(self, o):
        o = self._coerce(o)
        if o is None:
            return NotImplemented
        t = {}
        for k1, v1 in self.t.items():
            for k2, v2 in o.t.items():
                k = tuple(a + b for a, b in zip(k1, k2))
                t[k] = t.get(k, 0) + v1 * v2
        return Poly(t)

    __rmul__ = __mul__

    def __eq__(self, o):
        o = self._coerce(o)
        if o is None:
            return NotImplemented
        return self.t == o.t

    def __ne__(self, o):
        r = self.__eq__(o)
        return r if r is NotImplemented else not r

    def __hash__(self):
        return hash(frozenset(self.t.items()))

    def __format__(self, spec):
        return "Poly(%d terms)" % len(self.t)

    def __repr__(self):
        return "Poly(%r)" % (self.t,)


def is_zero_poly(p):
    return isinstance(p, Poly) and not p.t


def symbolic_checks(G):
    """returns list of (name, ok, detail)"""
    v = [Poly.var(i) for i in range(8)]
    x1, y1, z1, x2, y2, z2, k, _ = v
    a = G.Vector(x1, y1, z1)
    b = G.Vector(x2, y2, z2)
    out = []

    def comps(name, got, exp):
        try:
            g = [got[0], got[1], got[2]]
            ok = all(isinstance(c, Poly) for c in g) and all(gc == ec for gc, ec in zip(g, exp))
            out.append((name, ok, {"got": repr(g), "expected": repr(exp)}))
        except Exception as e:
            out.append((name, False, {"error": repr(e)}))

    def scalar(name, got, exp):
        ok = isinstance(got, Poly) and got == exp
        out.append((name, ok, {"got": repr(got), "expected": repr(exp)}))

    def guard(name, fn):
        try:
            fn()
        except Exception as e:
            out.append((name, False, {"error": repr(e)}))

    guard("a+b", lambda: comps("a+b", a + b, [x1 + x2, y1 + y2, z1 + z2]))
    guard("a-b", lambda: comps("a-b", a - b, [x1 - x2, y1 - y2, z1 - z2]))
    guard("a*k", lambda: comps("a*k", a * k, [x1 * k, y1 * k, z1 * k]))
    guard("k*a", lambda: comps("k*a", k * a, [x1 * k, y1 * k, z1 * k]))
    guard("-a", lambda: comps("-a", -a, [-x1, -y1, -z1]))
    guard("a*b", lambda: scalar("a.b", a * b, x1 * x2 + y1 * y2 + z1 * z2))
    cr = [y1 * z2 - z1 * y2, z1 * x2 - x1 * z2, x1 * y2 - y1 * x2]
    guard("a.cross(b)", lambda: comps("a.cross(b)", a.cross(b), cr))
    guard("Vector(P1,P2)", lambda: comps("Vector(P1,P2)", G.Vector(G.Point(x1, y1, z1), G.Point(x2, y2, z2)), [x2 - x1, y2 - y1, z2 - z1]))
    guard("Point.pv", lambda: comps("Point.pv", G.Point(x1, y1, z1).pv(), [x1, y1, z1]))

    def mv():
        p = G.Point(x1, y1, z1)
        r = p.move(b)
        comps("Point.move (receiver)", [p.x, p.y, p.z], [x1 + x2, y1 + y2, z1 + z2])
        comps("Point.move (returned)", [r.x, r.y, r.z], [x1 + x2, y1 + y2, z1 + z2])

    guard("Point.move", mv)

    def idents():
        c = a.cross(b)
        scalar("a.(axb)=0", a * c, Poly(0))
        c2 = b.cross(a)
        comps("axb+bxa=0", c + c2, [Poly(0), Poly(0), Poly(0)])
        scalar("|axb|^2=|a|^2|b|^2-(a.b)^2", c * c - ((a * a) * (b * b) - (a * b) * (a * b)), Poly(0))

    guard("identities", idents)
    return out


# ---------------------------------------------------------------- helpers
TYPES = {"int": int, "frac": F, "dec": Decimal, "float": float, "poly": Poly}
ORDER = ["poly", "frac", "dec", "float", "int"]  # most general first


def to_type(tn, q):
    """exact rational q as a value of the named type (q chosen representable)"""
    if tn == "int":
        return int(q)
    if tn == "frac":
        return F(q)
    if tn == "dec":
        return Decimal(q.numerator) / Decimal(q.denominator)
    if tn == "float":
        return float(q)
    if tn == "poly":
        return Poly(q)
    raise ValueError(tn)


def as_frac(x):
    if isinstance(x, Poly):
        if not x.t:
            return F(0)
        (k, v), = x.t.items()
        assert not any(k)
        return v
    return F(x)


def ulp_ok(got, exact_val, terms):
    mag = max([abs(float(t)) for t in terms] + [abs(float(exact_val))])
    return abs(float(got) - float(exact_val)) <= 4 * (math.ulp(mag) if mag > 0 else 5e-324) * max(1, len(terms))


def check(case, ctx):
    G = lib()
    kind = case[0]
    if kind == "SYM":
        ctx.cls("symbolic")
        res = symbolic_checks(G)
        for name, ok, detail in res:
            ctx.note("symbolic:" + name)
        ctx.nontrivial_distinct_by_construction(len(res))
        ctx.sample("symbolic", [n for n, _, _ in res])
        for name, ok, detail in res:
            if not ok:
                raise Fail("symbolic formula wrong: %s" % name, detail, {"mode": "symbolic"})
        return
    if kind == "PROMO":
        return check_promotion(case, ctx, G)
    if kind == "ARITH":
        return check_arith(case, ctx, G)
    if kind == "NORM":
        return check_norm(case, ctx, G)
    if kind == "CONST":
        return check_const(case, ctx, G)
    raise ValueError(kind)


def check_promotion(case, ctx, G):
    _k, tns, qs, which = case
    want = next(t for t in ORDER if t in tns)
    cls = "promotion/%s->%s/%s" % ("+".join(tns), want, which)
    ctx.cls("promotion/->%s/%s" % (want, which))
    if len(set(tns)) > 1:
        ctx.nontrivial(case)
    ctx.sample("promotion/->%s/%s" % (want, which), case)
    vals = [to_type(t, q) for t, q in zip(tns, qs)]
    facts = {"mode": "promotion", "types": list(tns)}
    shared_fail = None
    try:
        if which == "Vector":
            o = G.Vector(*vals)
            got = [o[0], o[1], o[2]]
        elif which == "Vector(list)":
            o = G.Vector(list(vals))
            got = [o[0], o[1], o[2]]
        elif which == "Vector(shared list)":
            # two Vectors built from one list object, and the list reused by the caller afterwards: each Vector
            # holds the coordinates it was given until they are assigned through the Vector itself
            lst = list(vals)
            o = G.Vector(lst)
            o2 = G.Vector(lst)
            o2[0] = vals[1]
            lst[2] = vals[0]
            lst[1] = vals[0]
            got = [o[0], o[1], o[2]]
            if as_frac(o2[1]) != qs[1] or as_frac(o2[2]) != qs[2] or as_frac(o2[0]) != qs[1]:
                shared_fail = Fail("a Vector built from a list changed when another Vector built from the same list was assigned to / the list was edited", {"got": repr([o2[0], o2[1], o2[2]])}, facts)
        elif which == "Point(edited Vector)":
            # a Vector whose coordinates were assigned one by one (documented item setting) holds a mixture;
            # the Point built from it must promote like any other constructor call
            v = G.Vector(0, 0, 0)
            for i_, x_ in enumerate(vals):
                v[i_] = x_
            o = G.Point(v)
            got = [o.x, o.y, o.z]
        else:
            o = G.Point(*vals)
            got = [o.x, o.y, o.z]
    except Exception as e:
        raise Fail("%s constructor with mixed types raises %s" % (which, type(e).__name__), {"error": repr(e), "types": tns}, facts)
    if shared_fail is not None:
        raise shared_fail
    T = TYPES[want]
    for g, q in zip(got, qs):
        if type(g) is not T:
            raise Fail("%s coordinates not promoted to the most general type" % which, {"types": tns, "got": [type(x).__name__ for x in got], "expected": want}, facts)
        if as_frac(g) != q:
            raise Fail("%s promotion changed a value" % which, {"got": repr(got), "expected": [str(q) for q in qs]}, facts)


def check_arith(case, ctx, G):
    _k, ta, tb, A_, B_, kq = case
    cls = "arith/%s,%s" % (ta, tb)
    ctx.cls(cls)
    signs = set(x > 0 for x in A_ + B_ if x != 0)
    if len(signs) > 1 or ta != tb:
        ctx.nontrivial(case)
    ctx.sample(cls, case)
    a = G.Vector(*[to_type(ta, q) for q in A_])
    b = G.Vector(*[to_type(tb, q) for q in B_])
    res_t = next(t for t in ORDER if t in (ta, tb))
    T = TYPES[res_t]
    facts = {"mode": "arith", "types": [ta, tb]}
    isfloat = res_t == "float"
    k_a = to_type(ta, kq)

    def comp(name, got, exp_terms, T=T):
        """exp_terms: per component list of exact terms whose sum is the expected value"""
        try:
            g = [got[0], got[1], got[2]]
        except Exception as e:
            raise Fail("%s result unusable: %s" % (name, type(e).__name__), {"error": repr(e)}, facts)
        for gc, terms in zip(g, exp_terms):
            ev = sum(terms, F(0))
            if type(gc) is not T:
                raise Fail("%s changes the numeric type" % name, {"types": [ta, tb], "got": type(gc).__name__, "expected": T.__name__}, facts)
            if isfloat:
                if not ulp_ok(gc, ev, terms):
                    raise Fail("%s wrong value (float)" % name, {"got": repr(g), "expected": float(ev)}, facts)
            elif as_frac(gc) != ev:
                raise Fail("%s wrong value" % name, {"got": repr(g), "expected": [str(sum(t, F(0))) for t in exp_terms]}, facts)

    def sc(name, got, terms, T=T):
        ev = sum(terms, F(0))
        if type(got) is not T:
            raise Fail("%s changes the numeric type" % name, {"types": [ta, tb], "got": type(got).__name__, "expected": T.__name__}, facts)
        if isfloat:
            if not ulp_ok(got, ev, terms):
                raise Fail("%s wrong value (float)" % name, {"got": repr(got), "expected": float(ev)}, facts)
        elif as_frac(got) != ev:
            raise Fail("%s wrong value" % name, {"got": repr(got), "expected": str(ev)}, facts)

    def guard(name, fn):
        try:
            return fn()
        except Fail:
            raise
        except Exception as e:
            raise Fail("%s raises %s" % (name, type(e).__name__), {"error": repr(e), "types": [ta, tb]}, facts)

    Ta = TYPES[ta]
    guard("a+b", lambda: comp("a+b", a + b, [[x, y] for x, y in zip(A_, B_)]))
    guard("a-b", lambda: comp("a-b", a - b, [[x, -y] for x, y in zip(A_, B_)]))
    guard("a*k", lambda: comp("a*k", a * k_a, [[x * kq] for x in A_], Ta))
    guard("k*a", lambda: comp("k*a", k_a * a, [[x * kq] for x in A_], Ta))
    guard("-a", lambda: comp("-a", -a, [[-x] for x in A_], Ta))
    guard("a.b", lambda: sc("a.b", a * b, [x * y for x, y in zip(A_, B_)]))
    cr = [
        [A_[1] * B_[2], -A_[2] * B_[1]],
        [A_[2] * B_[0], -A_[0] * B_[2]],
        [A_[0] * B_[1], -A_[1] * B_[0]],
    ]
    guard("a.cross(b)", lambda: comp("a.cross(b)", a.cross(b), cr))
    if ta == tb:
        pa = G.Point(*[to_type(ta, q) for q in A_])
        pb = G.Point(*[to_type(tb, q) for q in B_])
        guard("Vector(P1,P2)", lambda: comp("Vector(P1,P2)", G.Vector(pa, pb), [[y, -x] for x, y in zip(A_, B_)]))
    if not isfloat:
        c = guard("cross", lambda: a.cross(b))
        z = guard("a.(axb)", lambda: a * c)
        if as_frac(z) != 0:
            raise Fail("a.(a x b) != 0 for exact types", {"got": repr(z)}, facts)
        c2 = guard("cross", lambda: b.cross(a))
        if any(as_frac(c[i]) != -as_frac(c2[i]) for i in range(3)):
            raise Fail("a x b != -(b x a) for exact types", {}, facts)
        lhs = as_frac(c * c)
        rhs = as_frac(a * a) * as_frac(b * b) - as_frac(a * b) ** 2
        if lhs != rhs:
            raise Fail("Lagrange identity fails for exact types", {"lhs": str(lhs), "rhs": str(rhs)}, facts)


def check_norm(case, ctx, G):
    _k, tn, V_, W_ = case[:4]
    edit = case[4] if len(case) > 4 else None
    cls = "norm/%s%s" % (tn, "/after-setitem" if edit else "")
    ctx.cls(cls)
    ctx.nontrivial(case)
    ctx.sample(cls, case)
    facts = {"mode": "norm", "type": tn, "edited": bool(edit)}
    if edit:
        # the vector is first built with another coordinate, measured, then edited in place with
        # v[i] = x (documented coordinate setting); every later answer must be that of the edited vector
        i, old = edit
        V0 = list(V_)
        V0[i] = old
        v = G.Vector(*[to_type(tn, q) for q in V0])
        try:
            v.length(), abs(v), v.normalized(), v.angle(G.Vector(1, 2, 3)), hash(v)
        except Exception:
            pass
        v[i] = to_type(tn, V_[i])
    else:
        v = G.Vector(*[to_type(tn, q) for q in V_])
    w = G.Vector(*[to_type(tn, q) for q in W_])
    Vq = [F(to_type(tn, q)) for q in V_]
    Wq = [F(to_type(tn, q)) for q in W_]
    l2 = sum(x * x for x in Vq)
    ref_len = math.sqrt(l2) if l2 < 2**1000 else float("inf")
    # exact sqrt reference via integer sqrt for robustness at extreme magnitudes
    ref_len = float(F(math.isqrt(l2.numerator * 10**40 * l2.denominator), l2.denominator * 10**20))

    def guard(name, fn):
        try:
            return fn()
        except Exception as e:
            raise Fail("%s raises %s [%s]" % (name, type(e).__name__, tn), {"error": repr(e)}, facts)

    L = guard("length", v.length)
    if abs(float(L) - ref_len) > 1e-12 * ref_len:
        raise Fail("length wrong [%s]" % tn, {"got": float(L), "expected": ref_len}, facts)
    if abs(float(abs(v)) - ref_len) > 1e-12 * ref_len:
        raise Fail("abs(v) wrong [%s]" % tn, {"got": float(abs(v)), "expected": ref_len}, facts)
    for name in ("normalized", "unit"):
        u = guard(name, getattr(v, name))
        uf = [float(u[0]), float(u[1]), float(u[2])]
        ul = math.sqrt(sum(c * c for c in uf))
        if abs(ul - 1) > 1e-12:
            raise Fail("|%s(v)| != 1 [%s]" % (name, tn), {"got": ul}, facts)
        vf = [float(x) for x in Vq]
        cr = B._fcross(uf, vf)
        if B._fnorm(cr) > 1e-12 * B._fnorm(vf) or B._fdot(uf, vf) <= 0:
            raise Fail("%s(v) not in the direction of v [%s]" % (name, tn), {"got": uf, "v": vf}, facts)
    ang = guard("angle", lambda: v.angle(w))
    cq = X.cross(Vq, Wq)
    ref = math.atan2(math.sqrt(float(X.dot(cq, cq))), float(X.dot(Vq, Wq)))
    if isinstance(ang, bool) or not isinstance(ang, (int, float)) or not (-1e-12 <= ang <= math.pi + 1e-12):
        raise Fail("angle outside [0, pi] [%s]" % tn, {"got": repr(ang)}, facts)
    if abs(ang - ref) > 1e-7:
        raise Fail("angle wrong [%s]" % tn, {"got": ang, "expected": ref}, facts)


def check_const(case, ctx, G):
    ctx.cls("constants")
    ctx.sample("constants", case)
    facts = {"mode": "const"}
    want = {
        "zero": (0, 0, 0),
        "x_unit_vector": (1, 0, 0),
        "y_unit_vector": (0, 1, 0),
        "z_unit_vector": (0, 0, 1),
    }
    for name, w in want.items():
        v = getattr(G.Vector, name)()
        if tuple(v) != w or not all(type(c) is int for c in v):
            raise Fail("Vector.%s() is not %s" % (name, w), {"got": repr(tuple(v))}, facts)
    for name in ("x_unit_vector", "y_unit_vector", "z_unit_vector"):
        v = getattr(G, name)()
        if tuple(v) != want[name]:
            raise Fail("%s() is not %s" % (name, want[name]), {"got": repr(tuple(v))}, facts)
    # the vectors handed out are the caller's to modify (documented coordinate setting); the next caller must
    # still get what the name says
    for name, w in want.items():
        v = getattr(G.Vector, name)()
        v[2] = 7
        v[0] = -3
        l = G.Line(getattr(G.Vector, name)(), G.Vector(1, 2, 2))
        l.move(G.Vector(1, 1, 1))
        again = getattr(G.Vector, name)()
        if tuple(again) != w:
            # (same signature as the plain check above: once a shared instance is corrupted the plain check fails too)
            raise Fail("Vector.%s() is not %s" % (name, w), {"got": repr(tuple(again)), "when": "after an earlier result was modified in place"}, facts)
    o = G.origin()
    o.move(G.Vector(1, 2, 3))
    if tuple(G.origin()) != (0, 0, 0):
        raise Fail("origin() is not (0,0,0)", {"got": repr(tuple(G.origin())), "when": "after an earlier result was moved"}, facts)


# ---------------------------------------------------------------- strategies
def q_for(tn):
    """exact rationals representable in the named type"""
    if tn == "int":
        return st.integers(-9, 9).map(F)
    if tn == "float":
        # dyadic values and floats whose repr is not their exact binary value (0.1, 1/3, 1e-6, ...); the exact
        # rational of the float is what the case carries
        return st.one_of(
            st.builds(F, st.integers(-64, 64), st.sampled_from([1, 2, 4, 8])),
            st.sampled_from([F(0.1), F(-0.3), F(1 / 3.0), F(1e-6), F(123456.789), F(2.675), F(-0.7)]),
        )
    if tn == "dec":
        return st.builds(F, st.integers(-99, 99), st.sampled_from([1, 2, 4, 5, 10]))
    return st.builds(F, st.integers(-12, 12), st.sampled_from([1, 2, 3, 4, 7]))


@st.composite
def gen_promo(draw):
    tns = tuple(draw(st.sampled_from(["int", "frac", "dec", "float", "poly"])) for _ in range(3))
    qs = tuple(draw(q_for(t)) for t in tns)
    # values must be representable in the target type too: float->Decimal/Fraction exact (dyadic); ok
    which = draw(st.sampled_from(["Vector", "Vector(list)", "Point", "Point(edited Vector)", "Vector(shared list)"]))
    if which == "Vector(shared list)" and draw(st.booleans()):
        tns = (tns[0],) * 3
        qs = tuple(draw(q_for(tns[0])) for _ in range(3))
    return ("PROMO", tns, qs, which)


@st.composite
def gen_arith(draw):
    ta = draw(st.sampled_from(["int", "frac", "dec", "float", "poly"]))
    tb = draw(st.sampled_from([ta, ta, "int"]))
    if draw(st.booleans()):
        ta, tb = tb, ta
    A_ = tuple(draw(q_for(ta)) for _ in range(3))
    B_ = tuple(draw(q_for(tb)) for _ in range(3))
    k = draw(q_for(ta))
    if ta == "float" and tb == "float":
        # exact dyadic rescaling: the component formulas must hold at every magnitude (products down to ~1e-15)
        sa = F(1, 2 ** draw(st.sampled_from((0, 0, 10, 20, 26))))
        sb = F(1, 2 ** draw(st.sampled_from((0, 0, 10, 20, 26))))
        A_ = tuple(x * sa for x in A_)
        B_ = tuple(x * sb for x in B_)
    return ("ARITH", ta, tb, A_, B_, k)


@st.composite
def gen_norm(draw, edit=False):
    tn = draw(st.sampled_from(["int", "float", "frac"]))
    e = draw(st.integers(-6, 6))

    small = draw(st.booleans())

    def comp():
        m = draw(st.integers(-9, 9) if small else st.integers(-999, 999))
        if tn == "int":
            return F(m * 10 ** max(e, 0))
        return F(m) * F(10) ** e

    V_ = (comp(), comp(), comp())
    assume(any(V_))
    mode = draw(st.sampled_from(["free", "parallel", "antiparallel", "perp", "nearly-parallel"]))
    if mode == "nearly-parallel":
        # long vectors a few units apart at their tips: angles of 1e-6 .. 1e-3 rad (and pi minus that), where a
        # cosine-based angle must still be good to the 1e-7 the reference is compared with
        M = F(10) ** draw(st.sampled_from((3, 4, 5, 6)))
        i = draw(st.integers(0, 2))
        a = [F(draw(st.integers(-3, 3))) for _ in range(3)]
        b = [F(draw(st.integers(-3, 3))) for _ in range(3)]
        sgn = draw(st.sampled_from((1, 1, -1)))
        a[i], b[i] = M, sgn * M
        assume(not X.is_zero(X.cross(tuple(a), tuple(b))))
        V_, W_ = tuple(a), tuple(b)
    elif mode == "free":
        W_ = (comp(), comp(), comp())
    elif mode == "parallel":
        W_ = tuple(x * 3 for x in V_)
    elif mode == "antiparallel":
        W_ = tuple(-x * 2 for x in V_)
    else:
        W_ = X.cross(V_, (F(1), F(2), F(-1)))
        if tn != "int":
            W_ = tuple(x * F(10) ** (-e) for x in W_)
    assume(any(W_))
    if edit:
        i = draw(st.integers(0, 2))
        old = comp()
        assume(any(V_[j] if j != i else old for j in range(3)))
        return ("NORM", tn, V_, tuple(W_), (i, old))
    return ("NORM", tn, V_, tuple(W_))


def strata(tier):
    n = 1500 if tier == "quick" else 50000
    return [
        Stratum("symbolic", "once", lambda: [("SYM",)]),
        Stratum("constants", "once", lambda: [("CONST",)]),
        Stratum("promotion", "hyp", gen_promo(), n),
        Stratum("arithmetic", "hyp", gen_arith(), n),
        Stratum("length-normalized-angle", "hyp", gen_norm(), n),
        Stratum("length-normalized-angle/after-setitem", "hyp", gen_norm(True), n // 3),
    ]
