"""C12 - intersection obeys the algebra of set intersection."""
import math
from fractions import Fraction as F
from hypothesis import strategies as st, assume

from ..common import lib, HarnessError
from ..engine import Fail, Stratum
from .. import exact as X, bridge as B, gen, genbody as GB, admit as A
from .c07 import feature_points, derive_other, IN_SUPPORT

ID = "C12"
WITNESS = ("eps", "round")
RULE = (
    "all 343 type triples (a, b, c) over the seven geometry types are enumerated (one stratum each): a is a free "
    "lattice flat or a generated polygon/polyhedron; b is built through feature points of a (carrier points at "
    "table parameters and off-carrier points for flats; vertices, edge midpoints, centroid, beyond-edge and far "
    "points for bodies) as Point/Line/HalfLine/Segment/Plane/triangle/tetrahedron; c is built the same way from a, "
    "from b or from the exact a∩b, so that nested intersections are frequently non-empty and degenerate. Checks: "
    "intersection(a,a) denotes a; if exactly a ⊆ b (pairs `in` supports) then `a in b` and intersection(a,b) denotes "
    "a; every vertex / end point / support point of intersection(a,b) lies in a and in b (exact H-representation, "
    "slack 1e-7); intersection(intersection(a,b),c) and intersection(a,intersection(b,c)) denote the same set and "
    "both equal the exact triple intersection (None absorbing); the nested calls run on the library's own "
    "non-lattice outputs. non-trivial = a∩b and b∩c both non-empty; distinct = distinct triple."
)
ASSUMPTIONS = [
    "float coordinates; comparator 1e-7",
    "failing cases are reported only inside the admission domain: exact margins > 1e-3 for (a,b), (b,c), (a∩b,c), (a,b∩c); run-time tolerance/rounding witness",
]

KINDS = ("P", "L", "PL", "S", "H", "G", "K")


def near_in(o, p, tol=1e-7):
    """float point p within tol of the exact set o (normalised constraint residuals)"""
    q = tuple(F(c) for c in p)
    for a, b, k in X.hrep(o):
        v = float(X.dot(a, q) - b) / math.sqrt(float(X.dot(a, a)))
        if k == "=" and abs(v) > tol:
            return False
        if k == "<" and v > tol:
            return False
    return True


def result_points(d):
    if d is None:
        return []
    k = d[0]
    if k == "P":
        return [d[1]]
    if k == "S":
        return [d[1], d[2]]
    if k in ("L", "H", "PL"):
        return [d[1]]
    if k in ("G", "K"):
        return list(d[1])
    return []


def check(case, ctx):
    G = lib()
    a, b, c, tag = case
    e_ab = X.inter(a, b)
    e_bc = X.inter(b, c)
    e_abc = X.inter(e_ab, c)
    e_abc2 = X.inter(a, e_bc)
    if B.same_set(B.fdesc(e_abc), B.fdesc(e_abc2)):
        raise HarnessError("exact oracle is not associative on %s" % (case,))
    cls = "%s,%s,%s" % (a[0], b[0], c[0])
    ctx.cls("triple:" + cls)
    ctx.cls("result:%s/%s/%s" % (B.kind_name(e_ab), B.kind_name(e_bc), B.kind_name(e_abc)))
    if e_ab is not None and e_bc is not None:
        ctx.nontrivial((a, b, c))
        ctx.note("nontrivial-triple:" + cls)
    ctx.sample("triple:" + cls, case, B.kind_name(e_abc))
    facts = {"triple": cls, "ab": B.kind_name(e_ab), "bc": B.kind_name(e_bc), "abc": B.kind_name(e_abc)}

    def guard(name, fn):
        s, v = B.call(fn)
        if s == "raise":
            raise Fail("%s [%s] raises %s" % (name, cls, B.exc_sig(v)), {"error": repr(v)}, facts)
        return v

    oa, ob, oc = B.build(a), B.build(b), B.build(c)
    # (i) idempotence
    for nm, o, d in (("a", oa, a), ("b", ob, b)):
        r = guard("intersection(%s,%s)" % (nm, nm), lambda: G.intersection(o, B.build(d)))
        why = B.same_set(B.fdesc(d), B.denote(r))
        if why:
            raise Fail("intersection(x,x) [%s] does not denote x: %s" % (d[0], why), {"x": d, "got": B.denote(r)}, facts)
    # pairwise results
    r_ab = guard("intersection(a,b)", lambda: G.intersection(oa, ob))
    r_bc = guard("intersection(b,c)", lambda: G.intersection(ob, oc))
    d_ab = B.denote(r_ab)
    # (ii) containment implies absorption
    if a[0] in IN_SUPPORT and b[0] in IN_SUPPORT[a[0]] and X.subset(a, b):
        if not guard("a in b", lambda: oa in ob):
            raise Fail("a is exactly contained in b but `a in b` is False [%s in %s]" % (a[0], b[0]), {"a": a, "b": b}, facts)
        why = B.same_set(B.fdesc(a), d_ab)
        if why:
            raise Fail("a in b but intersection(a,b) does not denote a [%s,%s]: %s" % (a[0], b[0], why), {"got": d_ab}, facts)
    # (iii) result points lie in both operands
    for p in result_points(d_ab):
        for nm, o in (("a", a), ("b", b)):
            if not near_in(o, p):
                raise Fail("a point of intersection(a,b) [%s,%s] does not lie in %s" % (a[0], b[0], nm), {"point": p, "result": d_ab}, facts)
    # (iv) associativity on the library's own outputs
    lhs = guard("intersection(intersection(a,b),c)", lambda: G.intersection(r_ab, oc))
    rhs = guard("intersection(a,intersection(b,c))", lambda: G.intersection(oa, r_bc))
    dl, dr = B.denote(lhs), B.denote(rhs)
    why = B.same_set(dl, dr)
    if why:
        raise Fail("(a∩b)∩c and a∩(b∩c) differ [%s]: %s" % (cls, why), {"left": dl, "right": dr, "exact": B.fdesc(e_abc)}, facts)
    why = B.same_set(B.fdesc(e_abc), dl)
    if why:
        raise Fail("(a∩b)∩c differs from the exact triple intersection [%s]: %s" % (cls, why), {"got": dl, "exact": B.fdesc(e_abc)}, facts)
    if r_ab is None and lhs is not None:
        raise Fail("None does not absorb", {}, facts)


def admit(case, fail):
    a, b, c, _t = case
    e_ab = X.inter(a, b)
    e_bc = X.inter(b, c)

    def mg(x, y):
        if x is None or y is None:
            return None
        r = X.inter(x, y)
        if x[0] in X.FLAT and y[0] in X.FLAT:
            return A.flat_case_margin(x, y, r).reason()
        return A.body_case_margin(x, y, r).reason()

    for x, y in ((a, b), (b, c), (e_ab, c), (a, e_bc)):
        why = mg(x, y)
        if why:
            return why
    return None


@st.composite
def triple(draw, ka, kb, kc):
    if ka in ("G", "K"):
        a = draw(GB.body(ka))
    else:
        a = draw(gen.free_flat(ka))
    idx = st.integers(0, 30)
    b = derive_other(a, (kb, draw(idx), draw(idx), draw(idx), draw(idx)))
    assume(b is not None)
    base_choice = draw(st.integers(0, 2))
    base = a
    if base_choice == 1:
        base = b
    elif base_choice == 2:
        r = X.inter(a, b)
        if r is not None:
            base = r
    c = derive_other(base, (kc, draw(idx), draw(idx), draw(idx), draw(idx)))
    assume(c is not None)
    return (a, b, c, "base%d" % base_choice)


def health(m, tier):
    missing = [t for t in ("%s,%s,%s" % (x, y, z) for x in KINDS for y in KINDS for z in KINDS) if m["classes"].get("triple:" + t, 0) < 1]
    if missing:
        return "type triples never generated: %s" % ",".join(missing[:10])
    return None


def strata(tier):
    q = tier == "quick"
    out = []
    for ka in KINDS:
        for kb in KINDS:
            for kc in KINDS:
                heavy = sum(1 for k in (ka, kb, kc) if k == "K")
                n = {0: 14, 1: 12, 2: 8, 3: 5}[heavy]
                if not q:
                    n *= 15
                out.append(Stratum("%s,%s,%s" % (ka, kb, kc), "hyp", triple(ka, kb, kc), n))
    return out
