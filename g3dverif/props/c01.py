"""C01 - intersection of two flat primitives is exactly their common point set."""
from hypothesis import strategies as st

from ..common import lib
from ..engine import Fail, Stratum
from .. import exact as X, bridge as B, gen, admit as A

ID = "C01"
WITNESS = ()
RULE = (
    "all 25 ordered pairs of {Point, Line, HalfLine, Segment, Plane}; first operand a free lattice flat "
    "(|x|<=8, denominators 1,2,4; small integer directions), second operand constructed from it by a "
    "relation recipe (on/off/collinear x 12 interval relations/parallel-off/cross at inside|end|beyond "
    "parameters/crossing carriers with a shared coordinate-plane projection/skew/in-plane/contains/perpendicular/"
    "coincident/free; Point pairs differing only by -1 vs -2), directions include quarter-lattice and short vectors; "
    "one Hypothesis run per "
    "(pair, recipe) stratum; intersection(a,b), intersection(b,a) and a.intersection(b) are each compared "
    "with the exact rational intersection (kind, end points within 1e-7, direction/normal parallel). "
    "non-trivial = exact result non-empty or the operands are parallel/collinear/coplanar (exact test); "
    "each case also draws a representation variant: int or float coordinates and one of the equivalent constructor forms (Line from Point+Vector / two Points / two Vectors, HalfLine and Segment from Point+Point / Point+Vector, Plane from point+normal / three points / point+two vectors / general form). distinct = distinct (a, b, variant)."
)
ASSUMPTIONS = [
    "float coordinates (the lattice values are exactly representable)",
    "comparator tolerance 1e-7 absolute on coordinates, 1e-9 on direction sines",
    "a failing case is reported only if its exact incidence margins (directions, point-carrier distances and angles, carrier crossing parameters, carrier-carrier distance) exceed 1e-3 (the property's domain)",
]

FLATS = ("P", "L", "H", "S", "PL")


def relation(a, b, r):
    fa, fb = A.features(a), A.features(b)
    da = fa[3] + fa[4]
    db = fb[3] + fb[4]
    par = False
    if fa[3] and fb[3]:
        par = X.is_zero(X.cross(fa[3][0], fb[3][0]))
    elif fa[4] and fb[4]:
        par = X.is_zero(X.cross(fa[4][0], fb[4][0]))
    elif fa[3] and fb[4]:
        par = X.dot(fa[3][0], fb[4][0]) == 0
    elif fa[4] and fb[3]:
        par = X.dot(fa[4][0], fb[3][0]) == 0
    return par


def check(case, ctx):
    G = lib()
    a, b = case[0], case[1]
    var = case[2] if len(case) > 2 else B.DEFAULT_VAR
    r = X.inter_flat(a, b)
    par = relation(a, b, r)
    cls = "%s-%s:%s%s" % (a[0], b[0], B.kind_name(r), "/par" if par else "")
    ctx.cls(cls)
    if r is not None or par:
        ctx.nontrivial(case)
    ctx.sample(cls, case, B.kind_name(r))
    e = B.fdesc(r)
    oa, ob = B.build_var(a, b, var)
    ctx.cls("ctypes:%s%s" % (var[0], var[2]))
    calls = [("intersection(a,b)", G.intersection, (oa, ob)), ("intersection(b,a)", G.intersection, (ob, oa))]
    if a[0] != "P":
        calls.append(("a.intersection(b)", oa.intersection, (ob,)))
    facts = {"pair": "%s-%s" % (a[0], b[0]), "expected": B.kind_name(r), "parallel": par}
    for name, fn, args in calls:
        st_, val = B.call(fn, *args)
        if st_ == "raise":
            raise Fail(
                "%s [%s,%s] raises %s" % (name, a[0], b[0], B.exc_sig(val)),
                {"error": repr(val), "expected": e},
                facts,
            )
        g = B.denote(val)
        why = B.same_set(e, g)
        if why:
            raise Fail(
                "%s [%s,%s] wrong: %s" % (name, a[0], b[0], why),
                {"expected": e, "got": g},
                facts,
            )


def admit(case, fail):
    a, b = case[0], case[1]
    r = X.inter_flat(a, b)
    return A.flat_case_margin(a, b, r).reason()


def strata(tier):
    per = 150 if tier == "quick" else 4000
    out = []
    for ka in FLATS:
        for kb in FLATS:
            for rec in gen.flat_recipes(ka, kb):
                n = per if rec != "free" else per // 2
                out.append(Stratum("%s-%s/%s" % (ka, kb, rec), "hyp", gen.with_variant(gen.flat_pair(ka, kb, rec)), n))
    return out
