"""C10 - distance is the exact Euclidean distance, symmetric and total."""
import math
from hypothesis import strategies as st

from ..common import lib
from ..engine import Fail, Stratum
from .. import exact as X, bridge as B, gen, admit as A

ID = "C10"
WITNESS = ()
RULE = (
    "the five documented pairs (Point-Point, Point-Line, Line-Line, Point-Plane, Line-Plane) in both "
    "argument orders; second operand constructed from the first by relation recipe (on/off/free, collinear, "
    "parallel-off, crossing, skew, in-plane/contains, perpendicular; short and quarter-lattice directions; Point pairs "
    "differing only by -1 vs -2); distance(a,b), distance(b,a) and the "
    "method forms are compared with sqrt of the exact rational squared distance (1e-9 relative), symmetry "
    "1e-12, and d==0 <=> exact intersection non-empty <=> intersection(a,b) is not None. non-trivial = any "
    "class except two generic points (parallel, coincident, intersecting, skew, in-plane, point on carrier); "
    "each case also draws int/float coordinates and a constructor form per operand; distinct = distinct (a, b, variant)."
)
ASSUMPTIONS = [
    "float coordinates; reference sqrt(float(exact d^2)) is accurate to 1 ulp",
    "zero test: d <= 1e-9 (non-intersecting admitted cases are > 1e-3 apart)",
]

PAIRS = [("P", "P"), ("P", "L"), ("L", "P"), ("L", "L"), ("P", "PL"), ("PL", "P"), ("L", "PL"), ("PL", "L")]


def check(case, ctx):
    G = lib()
    a, b = case[0], case[1]
    var = case[2] if len(case) > 2 else B.DEFAULT_VAR
    d2 = X.dist2(a, b)
    ref = math.sqrt(float(d2))
    r = X.inter_flat(a, b)
    par = False
    if a[0] == "L" and b[0] == "L":
        par = X.is_zero(X.cross(a[2], b[2]))
        rel = "coincident" if (par and r is not None) else "parallel" if par else "crossing" if r is not None else "skew"
    elif {a[0], b[0]} == {"L", "PL"}:
        l, p = (a, b) if a[0] == "L" else (b, a)
        par = X.dot(l[2], p[2]) == 0
        rel = "in-plane" if (par and r is not None) else "parallel" if par else "crossing"
    else:
        rel = "on" if r is not None else "off"
    cls = "%s-%s:%s" % (a[0], b[0], rel)
    ctx.cls(cls)
    if not (a[0] == "P" and b[0] == "P" and r is None):
        ctx.nontrivial(case)
    ctx.sample(cls, case, ref)
    oa, ob = B.build_var(a, b, var)
    facts = {"pair": "%s-%s" % (a[0], b[0]), "relation": rel, "parallel": par}
    calls = [("distance(a,b)", G.distance, (oa, ob)), ("distance(b,a)", G.distance, (ob, oa))]
    if a[0] in ("L", "PL"):
        calls.append(("a.distance(b)", oa.distance, (ob,)))
    if b[0] in ("L", "PL"):
        calls.append(("b.distance(a)", ob.distance, (oa,)))
    if a[0] == "P" and b[0] == "P":
        calls.append(("Point.distance(Point)", oa.distance, (ob,)))
    vals = []
    for name, fn, args in calls:
        s, v = B.call(fn, *args)
        if s == "raise":
            raise Fail("%s [%s,%s] raises %s" % (name, a[0], b[0], B.exc_sig(v)), {"error": repr(v), "expected": ref}, facts)
        if isinstance(v, bool) or not isinstance(v, (int, float)) or not math.isfinite(v):
            raise Fail("%s [%s,%s] returns a non-number" % (name, a[0], b[0]), {"got": repr(v)}, facts)
        if v < 0:
            raise Fail("%s [%s,%s] negative" % (name, a[0], b[0]), {"got": v}, facts)
        if abs(v - ref) > 1e-9 * max(1.0, ref):
            raise Fail("%s [%s,%s] wrong value" % (name, a[0], b[0]), {"got": v, "expected": ref}, facts)
        vals.append(v)
    if abs(vals[0] - vals[1]) > 1e-12 * max(1.0, ref):
        raise Fail("distance [%s,%s] not symmetric" % (a[0], b[0]), {"ab": vals[0], "ba": vals[1]}, facts)
    s, inter = B.call(G.intersection, oa, ob)
    if s == "raise":
        raise Fail("intersection [%s,%s] raises %s" % (a[0], b[0], B.exc_sig(inter)), {"error": repr(inter)}, facts)
    zero = vals[0] <= 1e-9
    if zero != (r is not None) or zero != (inter is not None):
        raise Fail(
            "distance zero [%s,%s] inconsistent with intersection" % (a[0], b[0]),
            {"distance": vals[0], "exact_intersects": r is not None, "library_intersection": repr(inter)},
            facts,
        )


def admit(case, fail):
    a, b = case[0], case[1]
    return A.flat_case_margin(a, b, X.inter_flat(a, b)).reason()


def strata(tier):
    per = 250 if tier == "quick" else 8000
    out = []
    for ka, kb in PAIRS:
        for rec in gen.flat_recipes(ka, kb):
            out.append(Stratum("%s-%s/%s" % (ka, kb, rec), "hyp", gen.with_variant(gen.flat_pair(ka, kb, rec)), per))
    return out
