"""C15 - degenerate or invalid constructions are rejected, never returned."""
from fractions import Fraction as F
from hypothesis import strategies as st, assume

from ..common import lib
from ..engine import Fail, Stratum
from .. import exact as X, bridge as B, gen, genbody as GB

ID = "C15"
RULE = (
    "one strategy per invalid-input class of the statement, instantiated over lattice positions, poses and "
    "magnitudes, in two flavours: exactly degenerate and degenerate up to a displacement of 1e-12 (or 1e-13) of "
    "one coordinate: zero-length Line/Segment/HalfLine (Point-Point, Point-Vector, Vector-Vector forms); polygon "
    "with < 3 points, < 3 distinct points, collinear points, one vertex off the plane by >= 1/64 (3-8 vertices, the lifted vertex at every input position); Plane with zero "
    "normal, collinear points, parallel vectors, (0,0,0,d); Parallelogram/Parallelepiped with zero, parallel or "
    "coplanar edge vectors; Pyramid with apex in the base plane; open / over-closed / flat face sets (also two "
    "disjoint faces, an open shell plus a detached polygon, and a face swapped for an interior polygon on existing edges - all of which satisfy Euler's formula - and the faces of two closed bodies, disjoint or meeting in one vertex, where every edge has its two faces and only Euler's formula objects); Circle and "
    "get_circle_point_list with n < 3; get_segment_from_point_list on < 2 or non-collinear points; unsupported "
    "operand type pairs (complement of each documented table, plus Vector, foreign and falsy values such as 0, '', (), "
    "[], {}) for the module "
    "functions intersection/distance/angle/parallel/orthogonal/volume and the forwarding methods; move of every "
    "type with a non-Vector (including (0,0,0), [0.0]*3, (), [], a Point, 0, False). Oracle: the call must raise (any Exception for constructors/helpers; "
    "NotImplementedError/ValueError/TypeError for the unsupported-operand and move groups); returning any value, "
    "including an exception instance, is the violation. Every case is invalid by exact construction, hence "
    "non-trivial; distinct = distinct (class, instance)."
)
ASSUMPTIONS = [
    "the near-degenerate flavour displaces by 1e-12 or 1e-13, i.e. >= 100x inside eps=1e-10",
    "unsupported-operand pairs are drawn from the complement of the documented tables; None is excluded for intersection (documented to return None)",
]

TINY = (1e-12, -1e-12, 1e-13)
ALLOWED3 = (NotImplementedError, ValueError, TypeError)


def fpt(p, bump=None):
    G = lib()
    c = [float(x) for x in p]
    if bump:
        i, e = bump
        c[i] += e
    return G.Point(*c)


def fvec(v, bump=None):
    G = lib()
    c = [float(x) for x in v]
    if bump:
        i, e = bump
        c[i] += e
    return G.Vector(*c)


def _objs(G):
    """one valid object per type (fresh each time), for the unsupported-operand classes"""
    o = G.Point(1.0, 2.0, 0.5)
    cube = G.Parallelepiped(G.Point(0, 0, 0), G.Vector(1, 0, 0), G.Vector(0, 1, 0), G.Vector(0, 0, 1))
    return {
        "P": o,
        "L": G.Line(G.Point(0, 1, 0), G.Vector(1, 2, -1)),
        "PL": G.Plane(G.Point(0, 0, 1), G.Vector(1, 1, 2)),
        "S": G.Segment(G.Point(0, 0, 0), G.Point(1, 2, 2)),
        "H": G.HalfLine(G.Point(0, 0, 0), G.Vector(2, 1, 2)),
        "G": G.ConvexPolygon((G.Point(0, 0, 0), G.Point(2, 0, 0), G.Point(0, 2, 1))),
        "K": cube,
        "V": G.Vector(1, 2, 3),
        "PYR": G.Pyramid(G.ConvexPolygon((G.Point(0, 0, 0), G.Point(2, 0, 0), G.Point(0, 2, 0))), G.Point(0, 0, 3), direct_call=False),
        "int": 3,
        "str": "x",
        "tuple": (1, 2, 3),
        "None": None,
        "float": 2.5,
        "zero-tuple": (0, 0, 0),
        "zero-list": [0.0, 0.0, 0.0],
        "empty-tuple": (),
        "empty-list": [],
        "origin-point": G.Point(0, 0, 0),
        "zero": 0,
        "false": False,
        "empty-str": "",
        "empty-dict": {},
        "zero-float": 0.0,
    }


SUPPORTED = {
    "distance": {("P", "P"), ("P", "L"), ("L", "L"), ("P", "PL"), ("L", "PL")},
    "angle": {("L", "L"), ("L", "PL"), ("PL", "PL"), ("V", "V")},
}
SUPPORTED["parallel"] = SUPPORTED["orthogonal"] = SUPPORTED["angle"]
GEO = ("P", "L", "PL", "S", "H", "G", "K")
OPERANDS = GEO + ("V", "PYR", "int", "str", "tuple", "None", "float", "zero", "false", "empty-tuple", "empty-list", "empty-str", "empty-dict", "zero-float")


def unsupported_pairs(fn):
    out = []
    if fn == "intersection":
        for a in OPERANDS:
            for b in OPERANDS:
                if a == "None" or b == "None":
                    continue
                if a in GEO and b in GEO:
                    continue
                out.append((a, b))
        return out
    sup = SUPPORTED[fn]
    for a in OPERANDS:
        for b in OPERANDS:
            if (a, b) in sup or (b, a) in sup:
                continue
            out.append((a, b))
    return out


def run_case(case):
    """perform the invalid call described by the case; returns the callable's result (should raise)"""
    G = lib()
    cls = case[0]
    a = case[1:]
    pkw = {}
    if cls.startswith("polygon/"):
        # the constructor's documented keyword forms must validate like the default form
        if cls.endswith("/reverse"):
            cls, pkw = cls[: -len("/reverse")], {"reverse": True}
        elif cls.endswith("/check-convex"):
            cls, pkw = cls[: -len("/check-convex")], {"check_convex": True}
    if cls == "line/pp":
        p, bump = a
        return G.Line(fpt(p), fpt(p, bump))
    if cls == "line/pv":
        p, bump = a
        return G.Line(fpt(p), fvec((0, 0, 0), bump))
    if cls == "line/vv":
        p, bump = a
        return G.Line(fvec(p), fvec((0, 0, 0), bump))
    if cls == "line/vp":
        # the constructor also takes (position vector, Point): a Point at that position gives a zero direction
        p, bump = a
        return G.Line(fvec(p), fpt(p, bump))
    if cls == "segment/pp":
        p, bump = a
        return G.Segment(fpt(p), fpt(p, bump))
    if cls == "segment/pv":
        p, bump = a
        return G.Segment(fpt(p), fvec((0, 0, 0), bump))
    if cls == "halfline/pp":
        p, bump = a
        return G.HalfLine(fpt(p), fpt(p, bump))
    if cls == "halfline/pv":
        p, bump = a
        return G.HalfLine(fpt(p), fvec((0, 0, 0), bump))
    if cls == "polygon/few":
        pts, = a
        return G.ConvexPolygon(tuple(fpt(p) for p in pts), **pkw)
    if cls == "polygon/few-distinct":
        pts, bump = a
        ps = [fpt(p) for p in pts]
        ps[-1] = fpt(pts[-1], bump)
        return G.ConvexPolygon(tuple(ps), **pkw)
    if cls == "polygon/collinear":
        pts, bump = a
        ps = [fpt(p) for p in pts]
        ps[-1] = fpt(pts[-1], bump)
        return G.ConvexPolygon(tuple(ps), **pkw)
    if cls == "polygon/nonplanar":
        pts, = a
        return G.ConvexPolygon(tuple(fpt(p) for p in pts), **pkw)
    if cls == "plane/zero-normal":
        p, bump = a
        return G.Plane(fpt(p), fvec((0, 0, 0), bump))
    if cls == "plane/collinear-points":
        p, q, r, bump = a
        return G.Plane(fpt(p), fpt(q), fpt(r, bump))
    if cls == "plane/parallel-vectors":
        p, v, w, bump = a
        return G.Plane(fpt(p), fvec(v), fvec(w, bump))
    if cls == "plane/general-zero":
        d, bump, ints = a
        abc = [0, 0, 0] if ints else [0.0, 0.0, 0.0]
        if bump:
            abc[bump[0]] = bump[1]
        return G.Plane(abc[0], abc[1], abc[2], d)
    if cls == "parallelogram":
        p, v, w, bump = a
        return G.Parallelogram(fpt(p), fvec(v), fvec(w, bump))
    if cls == "parallelepiped":
        p, u, v, w, bump = a
        return G.Parallelepiped(fpt(p), fvec(u), fvec(v), fvec(w, bump))
    if cls == "pyramid/apex-in-plane":
        pts, apex, bump = a
        return G.Pyramid(G.ConvexPolygon(tuple(fpt(p) for p in pts)), fpt(apex, bump), direct_call=False)
    if cls == "polyhedron/faces":
        K, mode, k = a
        faces = [G.ConvexPolygon(tuple(fpt(K[1][i]) for i in idx)) for _n, _b, idx in K[2]]
        if mode == "open":
            del faces[k % len(faces)]
        elif mode == "open2":
            del faces[k % len(faces)]
            del faces[(k * 7) % len(faces)]
        elif mode == "duplicate":
            faces.append(G.ConvexPolygon(tuple(fpt(K[1][i]) for i in K[2][k % len(K[2])][2])))
        elif mode == "extra-internal":
            # a polygon through the interior: two non-adjacent... use three vertices not all on one face
            pts = K[1]
            for i in range(len(pts)):
                for j in range(i + 1, len(pts)):
                    for l in range(j + 1, len(pts)):
                        tri = {i, j, l}
                        if not any(tri <= set(idx) for _n, _b, idx in K[2]):
                            faces.append(G.ConvexPolygon((fpt(pts[i]), fpt(pts[j]), fpt(pts[l]))))
                            return G.ConvexPolyhedron(tuple(faces))
            raise ValueError("no internal triangle")  # every triple on a face (cannot happen for a 3-D body)
        elif mode == "dup-for-missing":
            # one face handed over twice in place of another face with the same number of vertices: V, E, F and the
            # number of face sides are those of the closed body
            i = k % len(faces)
            same = [j for j in range(len(faces)) if j != i and len(K[2][j][2]) == len(K[2][i][2])]
            if not same:
                del faces[i]
            else:
                j = same[(k // 3) % len(same)]
                faces[j] = G.ConvexPolygon(tuple(fpt(K[1][t]) for t in K[2][i][2]))
        elif mode == "swap-internal":
            # one face replaced by a polygon through the interior whose edges are all edges of the body (e.g. the
            # equator of a bipyramid): V, E and F - and the total number of face sides - are those of the closed body
            cyc = internal_cycle(K)
            if cyc is None:
                del faces[k % len(faces)]
            else:
                # drop a face that shares an edge with the cycle
                cand = [j for j, (_n, _b, idx) in enumerate(K[2]) if len(set(idx) & set(cyc)) >= 2]
                del faces[cand[k % len(cand)] if cand else k % len(faces)]
                faces.append(G.ConvexPolygon(tuple(fpt(K[1][i]) for i in cyc)))
        elif mode in ("two-bodies", "two-bodies-vertex"):
            # the faces of two closed bodies at once: disjoint, or meeting in a single vertex. Every edge still
            # belongs to exactly two faces; only V - E + F (4, or 3) tells that this is not one closed polyhedron
            pts = K[1]
            if mode == "two-bodies":
                t = (F(20 + k % 3), F(-15), F(10))
            else:
                # translate so that vertex j of the copy lands on vertex i, choosing a pair for which the bodies
                # share nothing else (checked exactly through the vertex sets and the separating direction)
                t = None
                for i in range(len(pts)):
                    for j in range(len(pts)):
                        if i == j:
                            continue
                        tt = X.sub(pts[i], pts[j])
                        K2 = X.translate(K, tt)
                        r = X.inter(K, K2)
                        if r is not None and r[0] == "P":
                            t = tt
                            break
                    if t is not None:
                        break
                if t is None:
                    t = (F(20), F(-15), F(10))
            faces += [G.ConvexPolygon(tuple(fpt(X.add(K[1][i], t)) for i in idx)) for _n, _b, idx in K[2]]
        elif mode == "two-opposite":
            # two disjoint faces (no shared vertex): V - E + F = 2 holds for two separate polygons of equal size
            f0 = K[2][k % len(K[2])][2]
            other = [j for j, (_n, _b, idx) in enumerate(K[2]) if not set(idx) & set(f0)]
            if not other:
                del faces[k % len(faces)]
            else:
                faces = [faces[k % len(K[2])], faces[other[0]]]
        elif mode == "open+detached":
            # an open shell plus a detached polygon far away
            del faces[k % len(faces)]
            far = [X.add(p, (F(40), F(30), F(20))) for p in (K[1][0], K[1][1], K[1][2])]
            if X.is_zero(X.cross(X.sub(far[1], far[0]), X.sub(far[2], far[0]))):
                far[2] = X.add(far[2], (F(0), F(0), F(1)))
            faces.append(G.ConvexPolygon(tuple(fpt(p) for p in far)))
        elif mode == "flat-one":
            faces = [faces[k % len(faces)]]
        elif mode == "flat-two":
            f = faces[k % len(faces)]
            faces = [f, -f]
        elif mode == "empty":
            faces = []
        return G.ConvexPolyhedron(tuple(faces))
    if cls == "circle/n":
        p, n, r, k, which = a
        if which == "Circle":
            return G.Circle(fpt(p), fvec(n), float(r), k)
        if which == "get_circle_point_list":
            return G.get_circle_point_list(fpt(p), fvec(n), float(r), k)
        if which == "Cylinder":
            return G.Cylinder(fpt(p), float(r), fvec(n), k)
        return G.Cone(fpt(p), float(r), fvec(n), k)
    if cls == "seglist/few":
        pts, = a
        return G.get_segment_from_point_list([fpt(p) for p in pts])
    if cls == "seglist/noncollinear":
        pts, = a
        return G.get_segment_from_point_list([fpt(p) for p in pts])
    if cls.startswith("unsupported/"):
        fn, ka, kb, form = a
        objs = _objs(G)
        oa, ob = objs[ka], objs[kb]
        if form == "function":
            return getattr(G, fn)(oa, ob)
        return getattr(oa, fn)(ob)
    if cls == "unsupported-volume":
        k, = a
        return G.volume(_objs(G)[k])
    if cls == "move/non-vector":
        k, arg = a
        objs = _objs(G)
        return objs[k].move(objs[arg])
    raise ValueError(cls)


STRICT = ("unsupported", "move/")


def check(case, ctx):
    cls = case[0]
    flavour = "near" if any(isinstance(x, tuple) and len(x) == 2 and isinstance(x[1], float) for x in case[1:]) else "exact"
    tag = "%s/%s" % (cls, flavour)
    if cls.startswith("unsupported/"):
        tag = "%s/%s" % (cls, case[4])
    ctx.cls(tag)
    ctx.nontrivial(case)
    ctx.sample(tag, case)
    facts = {"class": cls, "flavour": flavour}
    try:
        val = run_case(case)
    except Exception as e:
        if any(cls.startswith(s) for s in STRICT) and not isinstance(e, ALLOWED3):
            raise Fail("%s: raises %s, not NotImplementedError/ValueError/TypeError" % (cls, type(e).__name__), {"error": repr(e)}, facts)
        return
    what = "an exception INSTANCE (%s)" % type(val).__name__ if isinstance(val, BaseException) else "a value"
    raise Fail("%s: invalid input accepted, call returned %s" % (cls, what), {"returned": repr(val)[:200]}, facts)


# ---------------------------------------------------------------- strategies
bumps = st.one_of(st.none(), st.tuples(st.integers(0, 2), st.sampled_from(TINY)))


@st.composite
def zero_length(draw, cls):
    return (cls, draw(gen.lattice_point()), draw(bumps))


@st.composite
def polygon_few(draw):
    k = draw(st.integers(0, 2))
    return ("polygon/few", tuple(draw(gen.lattice_point()) for _ in range(k)))


@st.composite
def polygon_few_distinct(draw):
    p = draw(gen.lattice_point())
    q = draw(gen.lattice_point())
    assume(p != q)
    k = draw(st.integers(3, 6))
    seq = [draw(st.sampled_from((p, q))) for _ in range(k - 2)] + [p, q]
    seq = list(draw(st.permutations(seq)))
    return ("polygon/few-distinct", tuple(seq), draw(bumps))


@st.composite
def polygon_collinear(draw):
    p = draw(gen.lattice_point(5))
    d = draw(gen.direction())
    k = draw(st.integers(3, 5))
    ts = draw(st.lists(st.sampled_from((F(-2), F(-1), F(-1, 2), F(0), F(1, 2), F(1), F(2), F(3))), min_size=k, max_size=k, unique=True))
    return ("polygon/collinear", tuple(X.add(p, X.mul(t, d)) for t in ts), draw(bumps))


@st.composite
def polygon_same_angle(draw):
    """a parallelogram plus an extra point off its plane above the ray from the centre to the vertex opposite the
    first one, listed after the three points that span the plane and before that opposite vertex: seen from the
    centre of all five points the extra point and that vertex lie in exactly the same direction"""
    fr_ = draw(GB.frame())
    a, b = draw(st.sampled_from((1, 2, 3))), draw(st.sampled_from((1, 2)))
    sh = draw(st.integers(-1, 1))
    q = [GB.in_frame(fr_, ab) for ab in ((0, 0), (a, 0), (a + sh, b), (sh, b))]
    n = tuple(F(c) for c in X.primitive(X.cross(fr_[1], fr_[2])))
    off = draw(st.sampled_from((F(1, 64), F(-1, 64), F(1, 8), F(1), F(-1, 2), F(2))))
    c = X.centroid(q)
    r = draw(st.integers(0, 3))
    q = q[r:] + q[:r]
    if draw(st.booleans()):
        q = [q[0], q[3], q[2], q[1]]
    sc = draw(st.sampled_from((F(1, 2), F(1, 4), F(3, 4), F(1))))
    extra = X.add(X.add(c, X.mul(sc, X.sub(q[2], c))), X.mul(off, n))
    return ("polygon/nonplanar", (q[0], q[1], q[3], extra, q[2]))


@st.composite
def polygon_nonplanar(draw):
    g = draw(st.one_of(GB.polygon(3, 6), GB.polygon(6, 8)))
    n = tuple(F(c) for c in X.primitive(X.poly_normal(g[1])))
    pts = list(g[1])
    off = draw(st.sampled_from((F(1, 64), F(-1, 64), F(1, 8), F(1), F(-1, 2))))
    if draw(st.integers(0, 2)) == 0:
        # an extra point straight above (or below) the centre of the vertices, anywhere in the list: seen from the
        # centre it has no direction of its own
        c = X.centroid(pts)
        extra = X.add(c, X.mul(off * draw(st.sampled_from((1, 4, 16))), n))
        if len(pts) == 4 and tuple(X.add(pts[0], pts[2])) == tuple(X.add(pts[1], pts[3])) and draw(st.booleans()):
            # parallelogram: the extra point above the ray from the centre to the vertex opposite the first one, listed
            # after the three points that span the plane and before that opposite vertex
            sc = draw(st.sampled_from((F(1, 2), F(1, 4), F(3, 4))))
            extra = X.add(extra, X.mul(sc, X.sub(pts[2], c)))
            r = draw(st.integers(0, 3))
            q = pts[r:] + pts[:r]
            return ("polygon/nonplanar", (q[0], q[1], q[3], extra, q[2]))
        if draw(st.booleans()):
            # ... or above a point of the ray from the centre to one of the vertices: seen from the (shifted) centre
            # it has exactly the direction of that vertex
            j = draw(st.integers(0, len(pts) - 1))
            sc = draw(st.sampled_from((F(1, 2), F(1, 4), F(3, 4))))
            extra = X.add(extra, X.mul(sc, X.sub(pts[j], c)))
        pts.insert(draw(st.integers(0, len(pts))), extra)
        if draw(st.booleans()):
            pts = list(draw(st.permutations(pts)))
        return ("polygon/nonplanar", tuple(pts))
    if len(pts) >= 4 and draw(st.booleans()):
        # one vertex of the cycle lifted, handed over at a chosen position of the input (the others keep their order
        # up to a rotation): a validation that trusts particular input positions must still see it
        i = draw(st.integers(0, len(pts) - 1))
        lifted = X.add(pts[i], X.mul(off, n))
        rest = pts[:i] + pts[i + 1:]
        r = draw(st.integers(0, len(rest) - 1))
        rest = rest[r:] + rest[:r]
        if draw(st.booleans()):
            rest.reverse()
        pos = draw(st.integers(0, len(rest)))
        rest.insert(pos, lifted)
        return ("polygon/nonplanar", tuple(rest))
    # an extra vertex off the plane (over an exterior in-plane point so the projection stays convex-ish), or lift one
    if draw(st.booleans()):
        i = draw(st.integers(0, len(pts) - 1))
        if len(pts) == 3:
            pts.append(X.add(X.add(pts[0], X.sub(pts[2], pts[1])), X.mul(off, n)))
        else:
            pts[i] = X.add(pts[i], X.mul(off, n))
    else:
        e = X.add(pts[0], X.sub(pts[0], pts[1])) if len(pts) > 3 else X.add(pts[0], X.sub(pts[2], pts[1]))
        pts.append(X.add(e, X.mul(off, n)))
    pts = list(draw(st.permutations(pts)))
    return ("polygon/nonplanar", tuple(pts))


@st.composite
def polygon_keyword_forms(draw):
    base = draw(st.one_of(polygon_few(), polygon_few_distinct(), polygon_collinear(), polygon_nonplanar(), polygon_nonplanar()))
    return (base[0] + draw(st.sampled_from(("/reverse", "/reverse", "/check-convex"))),) + tuple(base[1:])


@st.composite
def plane_zero(draw):
    return ("plane/zero-normal", draw(gen.lattice_point()), draw(bumps))


@st.composite
def plane_collinear(draw):
    p = draw(gen.lattice_point(5))
    d = draw(gen.direction())
    t1, t2 = draw(st.sampled_from(((F(1), F(2)), (F(1, 2), F(-1)), (F(-2), F(3)), (F(1), F(1)), (F(0), F(1)))))
    return ("plane/collinear-points", p, X.add(p, X.mul(t1, d)), X.add(p, X.mul(t2, d)), draw(bumps))


@st.composite
def plane_parallel(draw):
    p = draw(gen.lattice_point(5))
    v = draw(gen.direction())
    k = draw(st.sampled_from(gen.SCALES + (F(0),)))
    return ("plane/parallel-vectors", p, v, X.mul(k, v), draw(bumps))


@st.composite
def plane_gf(draw):
    d = draw(st.integers(-5, 5))
    b = draw(st.one_of(st.none(), st.tuples(st.integers(0, 2), st.sampled_from((1e-12, -1e-12, 1e-13)))))
    return ("plane/general-zero", d, b, draw(st.booleans()) if b is None else False)


@st.composite
def parallelogram_bad(draw):
    p = draw(gen.lattice_point(5))
    v = draw(gen.direction())
    k = draw(st.sampled_from(gen.SCALES + (F(0),)))
    w = X.mul(k, v)
    if draw(st.booleans()):
        v, w = w, v
        assume(not X.is_zero(w) or True)
    return ("parallelogram", p, v, w, draw(bumps) if not X.is_zero(w) or True else None)


@st.composite
def parallelepiped_bad(draw):
    p = draw(gen.lattice_point(5))
    u = draw(gen.direction())
    v = draw(gen.direction())
    mode = draw(st.sampled_from(("parallel", "coplanar", "zero")))
    if mode == "parallel":
        w = X.mul(draw(st.sampled_from(gen.SCALES)), draw(st.sampled_from((u, v))))
    elif mode == "zero":
        w = (F(0), F(0), F(0))
    else:
        assume(not X.is_zero(X.cross(u, v)))
        i, j = draw(st.sampled_from(((1, 1), (1, -1), (2, 1), (1, 2), (-1, 3))))
        w = X.add(X.mul(F(i), u), X.mul(F(j), v))
    vs = list(draw(st.permutations([u, v, w])))
    return ("parallelepiped", p, vs[0], vs[1], vs[2], draw(bumps))


@st.composite
def pyramid_bad(draw):
    g = draw(GB.polygon(3, 6))
    fr = draw(st.sampled_from(("V", "E", "I", "F+", "E+")))
    apex = draw(GB.feature_point(g, fr))
    return ("pyramid/apex-in-plane", tuple(g[1]), apex, draw(bumps))


def internal_cycle(K):
    """vertex indices of a planar convex cycle of 3 or 4 hull edges that is not a face (None if the body has none)"""
    pts = K[1]
    faces = [set(idx) for _n, _b, idx in K[2]]
    ed = set()
    for _n, _b, idx in K[2]:
        for a_, b_ in zip(idx, list(idx[1:]) + [idx[0]]):
            ed.add(frozenset((a_, b_)))
    n = len(pts)
    adj = lambda i, j: frozenset((i, j)) in ed
    for i in range(n):
        for j in range(i + 1, n):
            if not adj(i, j):
                continue
            for l in range(j + 1, n):
                if adj(j, l) and adj(i, l) and not any({i, j, l} <= f for f in faces):
                    return (i, j, l)
    for i in range(n):
        for j in range(n):
            if j == i or not adj(i, j):
                continue
            for l in range(n):
                if l in (i, j) or not adj(j, l) or adj(i, l):
                    continue
                for m in range(n):
                    if m in (i, j, l) or not adj(l, m) or not adj(m, i) or adj(j, m):
                        continue
                    q = [pts[i], pts[j], pts[l], pts[m]]
                    nrm = X.cross(X.sub(q[1], q[0]), X.sub(q[2], q[0]))
                    if X.dot(nrm, X.sub(q[3], q[0])) != 0 or any({i, j, l, m} <= f for f in faces):
                        continue
                    # convex in this cyclic order: all turns have the same sign
                    sg = [X.dot(nrm, X.cross(X.sub(q[(t + 1) % 4], q[t]), X.sub(q[(t + 2) % 4], q[(t + 1) % 4]))) for t in range(4)]
                    if all(x > 0 for x in sg) or all(x < 0 for x in sg):
                        return (i, j, l, m)
    return None


@st.composite
def faces_bad(draw):
    K = draw(GB.polyhedron())
    mode = draw(st.sampled_from(("open", "open2", "duplicate", "extra-internal", "flat-one", "flat-two", "empty", "two-opposite", "open+detached", "swap-internal", "swap-internal", "two-bodies", "two-bodies-vertex", "dup-for-missing", "dup-for-missing")))
    return ("polyhedron/faces", K, mode, draw(st.integers(0, 20)))


@st.composite
def circle_bad(draw):
    return (
        "circle/n",
        draw(gen.lattice_point(5)),
        draw(gen.direction()),
        draw(st.sampled_from((F(1, 2), F(1), F(3), F(15, 2)))),
        draw(st.sampled_from((2, 1, 0, -1, -5))),
        draw(st.sampled_from(("Circle", "get_circle_point_list", "Cylinder", "Cone"))),
    )


@st.composite
def seglist_few(draw):
    k = draw(st.integers(0, 1))
    return ("seglist/few", tuple(draw(gen.lattice_point()) for _ in range(k)))


@st.composite
def seglist_noncollinear(draw):
    p = draw(gen.lattice_point(5))
    d = draw(gen.direction())
    k = draw(st.integers(2, 4))
    ts = draw(st.lists(st.sampled_from((F(-2), F(-1), F(0), F(1, 2), F(1), F(2))), min_size=k, max_size=k, unique=True))
    pts = [X.add(p, X.mul(t, d)) for t in ts]
    off = X.add(X.add(p, X.mul(draw(st.sampled_from((F(0), F(1), F(1, 2)))), d)), draw(gen.offset_from_line(d)))
    pos = draw(st.integers(2, len(pts)))
    pts.insert(pos, off)
    return ("seglist/noncollinear", tuple(pts))


def enum_unsupported(fn):
    def g(shard, nshards):
        i = 0
        for a, b in unsupported_pairs(fn):
            forms = ["function"]
            if a in ("L", "PL", "S", "H", "G", "K"):
                forms.append("method")
            for form in forms:
                i += 1
                if i % nshards == shard:
                    yield ("unsupported/" + fn, fn, a, b, form)

    return g


def enum_volume(shard, nshards):
    for i, k in enumerate(("P", "L", "PL", "S", "H", "G", "V", "int", "str", "None", "tuple", "float")):
        if i % nshards == shard:
            yield ("unsupported-volume", k)


def enum_move(shard, nshards):
    i = 0
    for k in GEO:
        for arg in ("P", "int", "str", "tuple", "None", "float", "L", "PL", "zero-tuple", "zero-list", "empty-tuple", "empty-list", "origin-point", "zero", "false"):
            i += 1
            if i % nshards == shard:
                yield ("move/non-vector", k, arg)


def strata(tier):
    q = tier == "quick"
    n = 120 if q else 4000
    out = []
    for cls in ("line/pp", "line/pv", "line/vv", "line/vp", "segment/pp", "segment/pv", "halfline/pp", "halfline/pv"):
        out.append(Stratum(cls, "hyp", zero_length(cls), n))
    out += [
        Stratum("polygon/few", "hyp", polygon_few(), n // 2),
        Stratum("polygon/few-distinct", "hyp", polygon_few_distinct(), n),
        Stratum("polygon/collinear", "hyp", polygon_collinear(), n),
        Stratum("polygon/nonplanar", "hyp", polygon_nonplanar(), n * 3),
        Stratum("polygon/nonplanar-same-angle", "hyp", polygon_same_angle(), n // 2),
        Stratum("polygon/keyword-forms", "hyp", polygon_keyword_forms(), n),
        Stratum("plane/zero-normal", "hyp", plane_zero(), n),
        Stratum("plane/collinear-points", "hyp", plane_collinear(), n),
        Stratum("plane/parallel-vectors", "hyp", plane_parallel(), n),
        Stratum("plane/general-zero", "hyp", plane_gf(), n // 2),
        Stratum("parallelogram", "hyp", parallelogram_bad(), n),
        Stratum("parallelepiped", "hyp", parallelepiped_bad(), n),
        Stratum("pyramid/apex-in-plane", "hyp", pyramid_bad(), n),
        Stratum("polyhedron/faces", "hyp", faces_bad(), n),
        Stratum("circle/n", "hyp", circle_bad(), n),
        Stratum("seglist/few", "hyp", seglist_few(), n // 4),
        Stratum("seglist/noncollinear", "hyp", seglist_noncollinear(), n),
    ]
    for fn in ("intersection", "distance", "angle", "parallel", "orthogonal"):
        out.append(Stratum("unsupported/" + fn, "enum", enum_unsupported(fn)))
    out.append(Stratum("unsupported/volume", "enum", enum_volume))
    out.append(Stratum("move/non-vector", "enum", enum_move))
    return out
