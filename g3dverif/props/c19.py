"""C19 - tolerance is uniform and follows set_eps / set_sig_figures (configuration histories)."""
import math
import os
import decimal
import itertools
from fractions import Fraction as F
from hypothesis import strategies as st

from ..common import lib, HarnessError
from ..engine import Fail, Stratum, make_history_machine
from .. import exact as X, bridge as B

ID = "C19"
RULE = (
    "rule-based state machine over the global configuration: set_eps(10^-k) and set_sig_figures(k) for k in 5..12, "
    "set_eps() / set_sig_figures() without argument, save / restore of the previous eps, interleaved with behaviour "
    "probes and re-probes. A probe takes a catalogue object of one of the 8 types (coordinates multiples of 1/8 with "
    "|x| <= 2, edge/normal frame one of 3 axis frames or the Pythagorean frames (1,2,2),(2,1,-2),(2,-2,1) / "
    "(2,3,6),(3,-6,2),(6,2,-3); the harness verifies with 40-digit decimals at start-up that every hashed quantity "
    "of every catalogue object is >= 7% of a rounding step from every rounding boundary at every precision 5..12) "
    "and perturbs one defining coordinate by eps/1000, eps/100 or 4*eps. Oracle: get_sig_figures() == "
    "round(-log10(get_eps())) after every step, defaults 1e-10 / 10; for eps/1000 and eps/100: == both ways, equal "
    "hashes, mutual containment of defining points, intersection returns the coincident kind equal to the operand; "
    "for 4.5*eps (more than 4 eps) on a Point/Vector coordinate: !=; a probe repeated after the same eps was restored "
    "gives identical answers; rules degenerate (Line / Segment / HalfLine through two points eps/1000 apart must be rejected under the current eps), dupvertex (a polygon vertex repeated eps/1000 away is merged), bigpoly (12-14 unit squares eps/1000 apart are equal and contain each other's vertices), cycle (hash under A, switch to B, edit in place by move or item assignment, back to A: equal to and hashing like a fresh object); an import-defaults case run in a fresh interpreter before any setter; objects kept alive across configuration changes (keep / recheck rules; each kept object also has twins translated by 1e-8 and 1e-9 created at the same time, which must equal and hash like it once eps/1000 covers that offset) must behave "
    "like freshly constructed identical objects under the current eps. non-trivial = probe under a non-default configuration; distinct = distinct (history, probe)."
    ' Rule keep_coarsen_recheck: keep an object, coarsen eps to 1e-5 / 1e-6, re-examine that object at once; eps/1000 twins lie on both sides (+-).'
)
ASSUMPTIONS = [
    "every other check runs in its own process; this machine restores the defaults at the start of every history and the engine resets them after the stratum",
    "catalogue support points have |coordinate| <= 2 so that an eps/100 perturbation moves no hashed quantity by more than ~2% of a rounding step",
]

KS = tuple(range(5, 13))
FRAMES = [
    ((1, 0, 0), (0, 1, 0), (0, 0, 1)),
    ((0, 1, 0), (0, 0, 1), (1, 0, 0)),
    ((0, 0, -1), (0, 1, 0), (1, 0, 0)),
    ((1, 2, 2), (2, 1, -2), (2, -2, 1)),
    ((2, 3, 6), (3, -6, 2), (6, 2, -3)),
    ((-2, -1, 2), (1, 2, 2), (2, -2, 1)),
]
BASES = [(F(1, 8), F(-3, 8), F(1, 2)), (F(0), F(0), F(0)), (F(-5, 8), F(1), F(1, 4)), (F(3, 4), F(7, 8), F(-1))]
# Point / Vector probes additionally use coordinates of larger magnitude (the tolerance is absolute and uniform)
BIG_BASES = [(F(25, 2), F(-129, 8), F(449, 4)), (F(-1000), F(3, 8), F(64)), (F(7), F(-9, 2), F(11, 8))]
TYPES = ("P", "V", "L", "PL", "S", "H", "G", "K", "PLG")
MANTISSAS = (1.5, 2.0, 2.5, 3.0, 5.0, 7.0)
PERTS = ("eps/1000", "eps/100", "4eps")


def catalogue(t, fi, bi):
    """defining data of a catalogue object: list of named float-able coordinate triples"""
    e1, e2, e3 = [tuple(F(c) for c in e) for e in FRAMES[fi]]
    p = BASES[bi]
    if t == "P":
        return {"kind": "P", "pts": [p if fi % 2 == 0 else BIG_BASES[(fi + bi) % len(BIG_BASES)]]}
    if t == "V":
        return {"kind": "V", "pts": [e1 if bi % 2 == 0 else BIG_BASES[(fi + bi) % len(BIG_BASES)]]}
    if t == "L":
        return {"kind": "L", "pts": [p, e1]}
    if t == "PL":
        return {"kind": "PL", "pts": [p, e3]}
    if t == "PLG":
        # plane in general form a x + b y + c z = d: the "points" are (a, b, c) and (d, 0, 0)
        return {"kind": "PLG", "pts": [e3, (X.dot(e3, p), F(0), F(0))]}
    if t == "S":
        return {"kind": "S", "pts": [p, X.add(p, e1)]}
    if t == "H":
        return {"kind": "H", "pts": [p, e1]}
    if t == "G":
        return {"kind": "G", "pts": [p, X.add(p, e1), X.add(X.add(p, e1), e2), X.add(p, e2)]}
    if t == "K":
        vs = [X.add(p, X.add(X.mul(a, e1), X.add(X.mul(b, e2), X.mul(c, e3)))) for a in (0, 1) for b in (0, 1) for c in (0, 1)]
        return {"kind": "K", "pts": vs}
    raise ValueError(t)


CUBE_FACES = [(0, 1, 3, 2), (4, 5, 7, 6), (0, 1, 5, 4), (2, 3, 7, 6), (0, 2, 6, 4), (1, 3, 7, 5)]


def construct(kind, pts):
    """pts: list of float triples"""
    G = lib()
    P = lambda q: G.Point(q[0], q[1], q[2])
    V = lambda q: G.Vector(q[0], q[1], q[2])
    if kind == "P":
        return P(pts[0])
    if kind == "V":
        return V(pts[0])
    if kind == "L":
        return G.Line(P(pts[0]), V(pts[1]))
    if kind == "PL":
        return G.Plane(P(pts[0]), V(pts[1]))
    if kind == "PLG":
        return G.Plane(pts[0][0], pts[0][1], pts[0][2], pts[1][0])
    if kind == "S":
        return G.Segment(P(pts[0]), P(pts[1]))
    if kind == "H":
        return G.HalfLine(P(pts[0]), V(pts[1]))
    if kind == "G":
        return G.ConvexPolygon(tuple(P(q) for q in pts))
    if kind == "K":
        return G.ConvexPolyhedron(tuple(G.ConvexPolygon(tuple(P(pts[i]) for i in f)) for f in CUBE_FACES))
    raise ValueError(kind)


def defining_points(kind, pts):
    """points that lie on the object (for mutual containment)"""
    if kind in ("P",):
        return [pts[0]]
    if kind in ("L", "H"):
        return [pts[0], tuple(a + b for a, b in zip(pts[0], pts[1]))]
    if kind == "PL":
        return [pts[0]]
    if kind == "PLG":
        n, d = pts[0], pts[1][0]
        nn = sum(c * c for c in n)
        return [tuple(c * d / nn for c in n)]
    if kind in ("S", "G", "K"):
        return list(pts)
    return []


# ---------------------------------------------------------------- start-up verification of the catalogue
_verified = False


def _dec(x):
    return decimal.Decimal(x.numerator) / decimal.Decimal(x.denominator)


def verify_catalogue():
    """every hashed quantity >= 7% of a rounding step from every boundary for k = 5..12"""
    global _verified
    if _verified:
        return
    decimal.getcontext().prec = 40
    quantities = []
    for fi, fr in enumerate(FRAMES):
        es = [tuple(F(c) for c in e) for e in fr]
        for bi, p in enumerate(BASES):
            pts = catalogue("K", fi, bi)["pts"]
            for q in pts:
                quantities += [_dec(c) for c in q]  # (the library multiplies rounded coordinates; products are not rounded)
            for e in es:
                l2 = X.dot(e, e)
                ln = _dec(F(l2)).sqrt()
                unit = [_dec(c) / ln for c in e]
                quantities += unit
                # plane offsets n.p for every vertex, line moments sv x unit_dv for every vertex
                for q in pts:
                    quantities.append(sum(_dec(a) * b for a, b in zip(q, unit)))
                    cr = X.cross(q, e)
                    quantities += [_dec(c) / ln for c in cr]
    worst = 1
    for x in quantities:
        for k in KS:
            y = abs(x) * (decimal.Decimal(10) ** k)
            frac = y - y.to_integral_value(rounding=decimal.ROUND_FLOOR)
            d = abs(frac - decimal.Decimal("0.5"))
            if d < worst:
                worst = d
    if worst < decimal.Decimal("0.07"):
        raise HarnessError("catalogue object has a hashed quantity within %s of a rounding boundary" % worst)
    _verified = True


# ---------------------------------------------------------------- executor
class Executor(object):
    def __init__(self, init):
        self.init = init
        self.facts = {}
        self.saved = []
        self.recorded = {}
        self.nprobes = 0
        self.kept = []
        self.kept_checks = 0
        self.kept_checks_changed = 0
        self.nondefault_probes = 0

    def guard(self, name, fn):
        s, v = B.call(fn)
        if s == "raise":
            raise Fail("%s raises %s" % (name, B.exc_sig(v)), {"error": repr(v), "eps": lib().get_eps()}, self.facts)
        return v

    def start(self):
        verify_catalogue()
        G = lib()
        self.guard("set_eps()", lambda: G.set_eps())
        self.guard("set_sig_figures()", lambda: G.set_sig_figures())
        if G.get_eps() != 1e-10 or G.get_sig_figures() != 10:
            raise Fail("defaults are not eps=1e-10 / 10 significant figures", {"eps": G.get_eps(), "sig": G.get_sig_figures()}, self.facts)
        self.config_invariant("initial")
        k0 = self.init[1] if len(self.init) > 1 else None
        if k0 is not None:
            # histories start from a generated configuration (set through either setter)
            self.apply(("set_eps" if self.init[2] else "set_sig", k0))

    def config_invariant(self, when):
        G = lib()
        eps, sig = G.get_eps(), G.get_sig_figures()
        if not (isinstance(eps, float) or isinstance(eps, int)) or eps <= 0:
            raise Fail("get_eps() is not a positive number %s" % when, {"eps": repr(eps)}, self.facts)
        if sig != round(-math.log10(eps)):
            raise Fail("get_sig_figures() != round(-log10(get_eps())) %s" % when, {"eps": eps, "sig": sig}, self.facts)

    def apply(self, step):
        G = lib()
        name = step[0]
        self.facts = {"step": name}
        if name == "set_eps":
            e = 10.0 ** (-step[1])
            self.guard("set_eps", lambda: G.set_eps(e))
            if G.get_eps() != e:
                raise Fail("get_eps() does not return the value set", {"set": e, "got": G.get_eps()}, self.facts)
            if G.get_sig_figures() != step[1]:
                raise Fail("set_eps(1e-k) does not give k significant figures", {"k": step[1], "sig": G.get_sig_figures()}, self.facts)
        elif name == "set_eps_any":
            # eps need not be a power of ten: get_sig_figures() must still be round(-log10(eps)) (config invariant)
            e = MANTISSAS[step[1] % len(MANTISSAS)] * 10.0 ** (-step[2])
            self.guard("set_eps", lambda: G.set_eps(e))
            if G.get_eps() != e:
                raise Fail("get_eps() does not return the value set", {"set": e, "got": G.get_eps()}, self.facts)
        elif name == "set_sig":
            self.guard("set_sig_figures", lambda: G.set_sig_figures(step[1]))
            if G.get_sig_figures() != step[1]:
                raise Fail("get_sig_figures() does not return the value set", {"set": step[1], "got": G.get_sig_figures()}, self.facts)
            if abs(G.get_eps() - 10.0 ** (-step[1])) > 1e-6 * 10.0 ** (-step[1]):
                raise Fail("set_sig_figures(k) does not give eps = 10^-k", {"k": step[1], "eps": G.get_eps()}, self.facts)
        elif name == "default_eps":
            self.guard("set_eps()", lambda: G.set_eps())
            if G.get_eps() != 1e-10 or G.get_sig_figures() != 10:
                raise Fail("set_eps() does not restore the defaults", {"eps": G.get_eps(), "sig": G.get_sig_figures()}, self.facts)
        elif name == "default_sig":
            self.guard("set_sig_figures()", lambda: G.set_sig_figures())
            if G.get_sig_figures() != 10 or abs(G.get_eps() - 1e-10) > 1e-16:
                raise Fail("set_sig_figures() does not restore the defaults", {"eps": G.get_eps(), "sig": G.get_sig_figures()}, self.facts)
        elif name == "save":
            self.saved.append(G.get_eps())
        elif name == "restore":
            if self.saved:
                e = self.saved.pop()
                self.guard("set_eps", lambda: G.set_eps(e))
                if G.get_eps() != e:
                    raise Fail("restoring a saved eps does not take effect", {"saved": e, "got": G.get_eps()}, self.facts)
        elif name == "probe":
            self.probe(tuple(step[1:]))
        elif name == "keep":
            ti, fi, bi = step[1], step[2], step[3]
            t = TYPES[ti % len(TYPES)]
            cat = catalogue(t, fi % len(FRAMES), bi % len(BASES))
            base = [tuple(float(c) for c in q) for q in cat["pts"]]
            o = self.guard("constructor", lambda: construct(cat["kind"], base))
            # use it once, so that anything an implementation caches is cached under the current configuration
            self.guard("hash", lambda: hash(o))
            self.guard("==", lambda: o == o)
            # twins of it, translated as a whole by 1e-8 / 1e-9 along one axis, created now: under a later, coarser
            # configuration (eps/1000 >= that offset) they must be equal to it although all of them predate it
            twins = []
            ax = (ti + fi + bi) % 3
            for d in (1e-8, 1e-9):
                tw = [tuple(c + (d if i == ax else 0.0) for i, c in enumerate(q)) for q in base]
                if cat["kind"] == "PLG":
                    # a general-form plane is translated by changing its offset only: adding d to a coefficient
                    # would tilt an unbounded set (whose support point the constructor may then place 1/d away),
                    # which is not "the same object d apart"
                    tw = [base[0], (base[1][0] + d, 0.0, 0.0)]
                b = self.guard("constructor", lambda: construct(cat["kind"], tw))
                self.guard("hash", lambda: hash(b))
                twins.append((d, b))
            if len(self.kept) < 6:
                self.kept.append((cat["kind"], base, o, G.get_eps(), twins))
        elif name == "keep_coarsen_recheck":
            # constructed: an object built and used under the configuration in force, the tolerance then coarsened by
            # at least three decades where the range allows, and exactly that object re-examined at once (defining
            # point and axis chosen by the step) - a value frozen at construction time has no other way to show
            if len(self.kept) < 6:
                self.apply(("keep", step[1], step[2], step[3]))
                idx = len(self.kept) - 1
                self.apply(("set_eps", 5 + step[4] % 2))
                self.apply(("recheck", idx, step[5], step[6]))
        elif name == "recheck":
            if self.kept:
                kind, base, o, eps0, twins = self.kept[step[1] % len(self.kept)]
                eps = G.get_eps()
                for d, b in twins:
                    if d <= eps / 1000.0 * (1 + 1e-9):
                        self.facts = {"step": "recheck-twin", "type": kind, "eps_at_creation": eps0, "eps": eps, "offset": d}
                        if self.guard("==", lambda: o == b) is not True or self.guard("==", lambda: b == o) is not True:
                            raise Fail("two %ss created under a finer eps, %g apart, are not equal now that eps/1000 covers the offset" % (kind, d), {"eps0": eps0, "eps": eps}, self.facts)
                        if self.guard("hash", lambda: hash(o)) != self.guard("hash", lambda: hash(b)):
                            raise Fail("two %ss created under a finer eps, %g apart, hash differently now that eps/1000 covers the offset" % (kind, d), {"eps0": eps0, "eps": eps}, self.facts)
                        self.kept_twin_checks = getattr(self, "kept_twin_checks", 0) + 1
                self.facts = {"step": "recheck", "type": kind, "eps_at_creation": eps0, "eps": eps}
                fresh = self.guard("constructor", lambda: construct(kind, base))
                self.kept_checks += 1
                if eps != eps0:
                    self.kept_checks_changed += 1
                if self.guard("==", lambda: o == fresh) is not True or self.guard("==", lambda: fresh == o) is not True:
                    raise Fail("a %s created under another eps is not equal to an identical fresh object" % kind, {"eps0": eps0, "eps": eps}, self.facts)
                if self.guard("hash", lambda: hash(o)) != self.guard("hash", lambda: hash(fresh)):
                    raise Fail("a %s created under another eps hashes unlike an identical fresh object" % kind, {"eps0": eps0, "eps": eps}, self.facts)
                # the twin lies eps/1000 away on either side (a half-line's twin starts just before or just behind
                # the kept one's start point)
                for sgn in (1.0, -1.0):
                    moved = [list(q) for q in base]
                    moved[step[2] % len(moved)][step[3] % 3] += sgn * eps / 1000.0
                    b = self.guard("constructor", lambda: construct(kind, [tuple(q) for q in moved]))
                    if self.guard("==", lambda: o == b) is not True or self.guard("==", lambda: b == o) is not True:
                        raise Fail("a %s created under another eps is not equal to a twin eps/1000 apart" % kind, {"eps0": eps0, "eps": eps}, self.facts)
                    if self.guard("hash", lambda: hash(o)) != self.guard("hash", lambda: hash(b)):
                        raise Fail("a %s created under another eps hashes unlike a twin eps/1000 apart" % kind, {"eps0": eps0, "eps": eps}, self.facts)
                    if kind not in ("V", "P", "PLG"):
                        # ... and they contain each other's defining points (the kept one was built under another eps)
                        for q in defining_points(kind, [tuple(x) for x in moved]):
                            if self.guard("in", lambda: G.Point(*q) in o) is not True:
                                raise Fail("a %s created under another eps does not contain a defining point of its eps/1000 twin" % kind, {"eps0": eps0, "eps": eps, "point": q}, self.facts)
                        for q in defining_points(kind, base):
                            if self.guard("in", lambda: G.Point(*q) in b) is not True:
                                raise Fail("the eps/1000 twin of a %s created under another eps does not contain its defining point" % kind, {"eps0": eps0, "eps": eps, "point": q}, self.facts)
                    if kind != "V":
                        r = self.guard("intersection", lambda: G.intersection(o, b))
                        if type(r) is not type(o) or self.guard("==", lambda: r == fresh) is not True:
                            raise Fail("intersection of a kept %s with its eps/1000 twin is not the coincident object" % kind, {"eps0": eps0, "eps": eps}, self.facts)
        elif name == "degenerate":
            # two defining points eps/1000 apart are the same point under the current eps: the zero-length object
            # must be rejected under every configuration, not only under the default one
            fi, bi, which, coord = step[1], step[2], step[3], step[4]
            cat = catalogue("S", fi % len(FRAMES), bi % len(BASES))
            p0 = tuple(float(c) for c in cat["pts"][0])
            eps = G.get_eps()
            q0 = tuple(c + (eps / 1000.0 if i == coord % 3 else 0.0) for i, c in enumerate(p0))
            tiny = tuple(eps / 1000.0 if i == coord % 3 else 0.0 for i in range(3))
            P = lambda q: G.Point(q[0], q[1], q[2])
            V = lambda q: G.Vector(q[0], q[1], q[2])
            forms = [
                ("Line(P, P')", lambda: G.Line(P(p0), P(q0))), ("Line(P, tiny Vector)", lambda: G.Line(P(p0), V(tiny))),
                ("Line(Vector, tiny Vector)", lambda: G.Line(V(p0), V(tiny))), ("Segment(P, P')", lambda: G.Segment(P(p0), P(q0))),
                ("Segment(P, tiny Vector)", lambda: G.Segment(P(p0), V(tiny))), ("HalfLine(P, P')", lambda: G.HalfLine(P(p0), P(q0))),
                ("HalfLine(P, tiny Vector)", lambda: G.HalfLine(P(p0), V(tiny))),
            ]
            nm, fn = forms[which % len(forms)]
            self.facts = {"step": "degenerate", "form": nm, "eps": eps}
            st_, v_ = B.call(fn)
            if st_ != "raise":
                raise Fail("%s with the two defining points eps/1000 apart is accepted under the current eps" % nm, {"eps": eps, "returned": repr(v_)[:120]}, self.facts)
        elif name == "dupvertex":
            # a polygon given with one vertex repeated eps/1000 away is the polygon without the repeat
            fi, bi, which, coord = step[1], step[2], step[3], step[4]
            cat = catalogue("G", fi % len(FRAMES), bi % len(BASES))
            base = [tuple(float(c) for c in q) for q in cat["pts"]]
            eps = G.get_eps()
            e1 = FRAMES[fi % len(FRAMES)][0 if coord % 2 == 0 else 1]
            ln = math.sqrt(sum(float(c) ** 2 for c in e1))
            w = which % len(base)
            dup = tuple(c + eps / 1000.0 * float(e) / ln for c, e in zip(base[w], e1))  # displaced inside the polygon's plane
            self.facts = {"step": "dupvertex", "eps": eps}
            plain = self.guard("constructor", lambda: construct("G", base))
            pos = (w + 1 + coord) % (len(base) + 1)
            pts = base[:pos] + [dup] + base[pos:]
            withdup = self.guard("constructor (vertex repeated eps/1000 away)", lambda: construct("G", pts))
            if len(withdup.points) != len(base):
                raise Fail("a vertex repeated eps/1000 away is kept as a vertex of its own", {"eps": eps, "vertices": len(withdup.points)}, self.facts)
            if self.guard("==", lambda: withdup == plain) is not True or self.guard("hash", lambda: hash(withdup)) != self.guard("hash", lambda: hash(plain)):
                raise Fail("a polygon with a vertex repeated eps/1000 away differs from / hashes unlike the plain polygon", {"eps": eps}, self.facts)
            self.guard("segments", lambda: list(withdup.segments()))
        elif name == "bigpoly":
            # the tolerance is absolute: it does not shrink for large objects
            side, which, sgn = (12.0, 14.0, 10.0)[step[1] % 3], step[2] % 4, 1.0 if step[3] else -1.0
            eps = G.get_eps()
            h = side / 2
            z = 0.375
            base = [(-h, -h, z), (h, -h, z), (h, h, z), (-h, h, z)]
            tw = [list(q) for q in base]
            tw[which][0] += sgn * eps / 1000.0
            tw[which][1] -= sgn * eps / 1000.0
            a = self.guard("constructor", lambda: construct("G", base))
            b = self.guard("constructor", lambda: construct("G", [tuple(q) for q in tw]))
            self.facts = {"step": "bigpoly", "eps": eps, "side": side}
            if self.guard("==", lambda: a == b) is not True or self.guard("hash", lambda: hash(a)) != self.guard("hash", lambda: hash(b)):
                raise Fail("large polygons eps/1000 apart differ / hash differently", {"eps": eps}, self.facts)
            for q in base:
                if self.guard("in", lambda: G.Point(*q) in b) is not True:
                    raise Fail("a large polygon does not contain a vertex of its eps/1000 twin", {"eps": eps, "vertex": q}, self.facts)
            for q in tw:
                if self.guard("in", lambda: G.Point(*q) in a) is not True:
                    raise Fail("a large polygon does not contain a vertex of its eps/1000 twin", {"eps": eps, "vertex": tuple(q)}, self.facts)
        elif name == "cycle":
            # hash under the current configuration A, switch to B, edit the object in place (move / item assignment),
            # switch back to A: the object must equal and hash like a fresh one at its new place ("restoring the
            # previous eps restores the previous behaviour")
            ti, fi, bi, kb, how = step[1], step[2], step[3], step[4], step[5]
            t = ("P", "S", "H", "L", "PL", "G", "V")[ti % 7]
            cat = catalogue(t, fi % len(FRAMES), bi % len(BASES))
            kind = cat["kind"]
            base = [tuple(float(c) for c in q) for q in cat["pts"]]
            eps_a = G.get_eps()
            o = self.guard("constructor", lambda: construct(kind, base))
            self.guard("hash", lambda: hash(o))
            self.guard("==", lambda: o == o)
            self.facts = {"step": "cycle", "type": kind, "eps": eps_a, "other_sig": kb}
            self.guard("set_sig_figures", lambda: G.set_sig_figures(kb))
            self.guard("hash", lambda: hash(o))
            v = ((1.0, 0.0, 0.5), (-0.25, 2.0, 0.0), (0.0, 0.0, -1.0))[how % 3]
            if kind in ("P", "V") and how >= 3:
                i = how % 3
                o[i] = base[0][i] + v[i]
                nbase = [tuple(c + (v[j] if j == i else 0.0) for j, c in enumerate(base[0]))]
            elif kind == "V":
                o[0], o[1], o[2] = (base[0][j] + v[j] for j in range(3))
                nbase = [tuple(c + d for c, d in zip(base[0], v))]
            else:
                self.guard("move", lambda: o.move(G.Vector(*v)))
                nbase = [tuple(c + d for c, d in zip(q, v)) for q in base] if kind in ("P", "S", "G") else [tuple(c + d for c, d in zip(base[0], v))] + list(base[1:])
            self.guard("hash", lambda: hash(o))
            self.guard("set_eps", lambda: G.set_eps(eps_a))
            fresh = self.guard("constructor", lambda: construct(kind, nbase))
            if self.guard("==", lambda: o == fresh) is not True or self.guard("==", lambda: fresh == o) is not True:
                raise Fail("a %s hashed under one eps, edited under another and looked at under the first again is not equal to a fresh one" % kind, {"eps": eps_a, "other_sig": kb}, self.facts)
            if self.guard("hash", lambda: hash(o)) != self.guard("hash", lambda: hash(fresh)):
                raise Fail("a %s hashed under one eps, edited under another and looked at under the first again hashes unlike a fresh one" % kind, {"eps": eps_a, "other_sig": kb}, self.facts)
        elif name == "movekept":
            # a kept object is moved under whatever configuration is in force now; it is compared with fresh objects
            # at its new place by later recheck steps, possibly under yet another configuration
            if self.kept:
                i = step[1] % len(self.kept)
                kind, base, o, eps0, twins = self.kept[i]
                if kind in ("P", "S", "H", "L", "PL", "G"):
                    v = ((1.0, 0.0, 0.5), (-0.25, 2.0, 0.0), (0.0, 0.0, -1.0))[step[2] % 3]
                    self.guard("move", lambda: o.move(G.Vector(*v)))
                    nbase = [tuple(c + d for c, d in zip(q, v)) for q in base] if kind in ("P", "S", "G") else [tuple(c + d for c, d in zip(base[0], v))] + list(base[1:])
                    self.kept[i] = (kind, nbase, o, eps0, [])
        elif name == "reprobe":
            if self.recorded:
                keys = sorted(self.recorded)
                spec = keys[step[1] % len(keys)][1]
                self.probe(spec)
        else:
            raise ValueError(name)
        self.config_invariant("after " + name)

    def probe(self, spec):
        G = lib()
        ti, fi, bi, pk, which, coord, sign = spec
        t = TYPES[ti % len(TYPES)]
        cat = catalogue(t, fi % len(FRAMES), bi % len(BASES))
        kind = cat["kind"]
        eps = G.get_eps()
        pert = PERTS[pk % len(PERTS)]
        delta = {"eps/1000": eps / 1000.0, "eps/100": eps / 100.0, "4eps": 4.5 * eps}[pert] * (1 if sign else -1)
        base = [tuple(float(c) for c in q) for q in cat["pts"]]
        wi = which % len(base)
        moved = [list(q) for q in base]
        moved[wi][coord % 3] += delta
        moved = [tuple(q) for q in moved]
        self.nprobes += 1
        if eps != 1e-10:
            self.nondefault_probes += 1
        self.facts = {"step": "probe", "type": kind, "frame": fi % len(FRAMES), "perturbation": pert, "eps": eps, "which": wi, "coord": coord % 3}
        if kind == "PLG" and wi == 1:
            moved = [base[0], (base[1][0] + delta, 0.0, 0.0)]
        if pert == "4eps" and kind not in ("P", "V"):
            # the statement makes the 4*eps claim for Points and Vectors only (a composite object with one
            # coordinate 4*eps off may legitimately be rejected, e.g. a polygon vertex off its plane)
            kind = "P" if (ti % 2) else "V"
            base = [base[wi]]
            moved = [moved[wi]]
            self.facts["type"] = kind
        a = self.guard("constructor", lambda: construct(kind, base))
        b = self.guard("constructor (perturbed)", lambda: construct(kind, moved))
        ans = {}
        if pert == "4eps":
            if kind in ("P", "V"):
                ans["ne"] = self.guard("!=", lambda: a != b)
                ans["eq"] = self.guard("==", lambda: a == b)
                if ans["ne"] is not True or ans["eq"] is not False:
                    raise Fail("%s objects differing by 4*eps in a coordinate compare equal" % kind, {"eps": eps}, self.facts)
        else:
            ans["eq"] = (self.guard("==", lambda: a == b), self.guard("==", lambda: b == a))
            if ans["eq"] != (True, True):
                raise Fail("%s objects differing by %s compare unequal" % (kind, pert), {"eps": eps, "eq": repr(ans["eq"])}, self.facts)
            ha, hb = self.guard("hash", lambda: hash(a)), self.guard("hash", lambda: hash(b))
            ans["hash"] = ha == hb
            if ha != hb:
                raise Fail("%s objects differing by %s hash differently" % (kind, pert), {"eps": eps}, self.facts)
            if kind not in ("P", "V"):
                for who, obj, pts in (("perturbed", a, defining_points(kind, moved)), ("original", b, defining_points(kind, base))):
                    for q in pts:
                        if not self.guard("in", lambda: G.Point(*q) in obj):
                            raise Fail("%s does not contain a defining point of its %s twin (%s apart)" % (kind, who, pert), {"eps": eps, "point": q}, self.facts)
            if kind != "V":
                for nm, fn in (("intersection(a,b)", lambda: G.intersection(a, b)), ("intersection(b,a)", lambda: G.intersection(b, a))):
                    r = self.guard(nm, fn)
                    if type(r) is not type(a):
                        raise Fail("%s of coincident %s objects (%s apart) is a %s" % (nm, kind, pert, type(r).__name__), {"eps": eps}, self.facts)
                    if self.guard("==", lambda: r == a) is not True:
                        raise Fail("%s of coincident %s objects (%s apart) does not equal the operand" % (nm, kind, pert), {"eps": eps}, self.facts)
                ans["inter"] = True
        key = (eps, spec)
        old = self.recorded.get(key)
        if old is not None and old != ans:
            raise Fail("the same probe under the same (restored) eps answers differently", {"eps": eps, "before": repr(old), "now": repr(ans)}, self.facts)
        self.recorded[key] = ans


def run_history(case):
    ex = Executor(case[1])
    try:
        ex.start()
        for s in case[2]:
            ex.apply(s)
    finally:
        from ..common import reset_config

        reset_config()
    return ex


def account(case, ctx):
    init, steps = case[1], case[2]
    cur = init[1] if len(init) > 1 and init[1] is not None else 10
    stack = []
    nondefault = False
    npr = 0
    for s in steps:
        name = s[0].rstrip("23")
        if name == "set_eps_any":
            cur = -1
        elif name in ("set_eps", "set_sig"):
            cur = s[1]
        elif name in ("default_eps", "default_sig"):
            cur = 10
        elif name == "save":
            stack.append(cur)
        elif name == "restore":
            if stack:
                cur = stack.pop()
        elif name in ("probe", "reprobe", "recheck", "degenerate", "dupvertex", "bigpoly", "cycle", "keep_coarsen_recheck"):
            if name == "keep_coarsen_recheck":
                cur = 5 + s[4] % 2
            npr += 1
            if cur != 10:
                nondefault = True
        ctx.cls("step:" + name)
        if name == "probe":
            ctx.cls("probe:%s/%s" % (TYPES[s[1] % len(TYPES)], PERTS[s[4] % len(PERTS)]))
            ctx.cls("probe-at-sig:%d" % cur)
            if cur != 10:
                ctx.cls("probe-nondefault:%s" % TYPES[s[1] % len(TYPES)])
    cls = "history/probes%d/%s" % (min(npr, 3), "nondefault" if nondefault else "default-only")
    ctx.cls(cls)
    if nondefault:
        ctx.nontrivial(case)
    ctx.sample(cls, case)


def check_import_defaults(case, ctx):
    """the configuration a fresh interpreter sees right after `import Geometry3D` (every other case runs after the
    harness has reset the configuration through the setters, which would hide a wrong import-time value)"""
    import subprocess, sys, json as _json
    from ..common import REPO

    ctx.cls("import-defaults")
    ctx.nontrivial_distinct_by_construction(1)
    ctx.sample("import-defaults", case)
    code = (
        "import sys, json, logging; sys.path.insert(0, %r); logging.disable(logging.CRITICAL)\n"
        "import Geometry3D as G\n"
        "out = {'eps': G.get_eps(), 'sig': G.get_sig_figures(), 'file': G.__file__}\n"
        "a, b = G.Point(1, 2, 3), G.Point(1 + 1e-13, 2, 3)\n"
        "out['near_equal'] = (a == b) is True and hash(a) == hash(b)\n"
        "out['far_unequal'] = (G.Point(1, 2, 3) != G.Point(1 + 4.5e-10, 2, 3)) is True\n"
        "la, lb = G.Line(G.Point(1, 2, 3), G.Vector(2, 2, 1)), G.Line(G.Point(1 + 1e-13, 2, 3), G.Vector(2, 2, 1))\n"
        "out['lines'] = (la == lb) is True and hash(la) == hash(lb)\n"
        "print('RESULT ' + json.dumps(out))\n"
    ) % os.path.abspath(REPO)
    r = subprocess.run([sys.executable, "-c", code], capture_output=True, text=True, env=dict(os.environ, PYTHONDONTWRITEBYTECODE="1"))
    facts = {"mode": "import-defaults"}
    line = [l for l in r.stdout.splitlines() if l.startswith("RESULT ")]
    if r.returncode != 0 or not line:
        raise Fail("a fresh interpreter cannot import the library and read its configuration", {"stderr": r.stderr[-600:]}, facts)
    out = _json.loads(line[-1][7:])
    if not os.path.abspath(out["file"]).startswith(os.path.abspath(REPO) + os.sep):
        raise HarnessError("fresh interpreter imported Geometry3D from %s" % out["file"])
    if out["eps"] != 1e-10 or out["sig"] != 10:
        raise Fail("the configuration right after import is not eps=1e-10 / 10 significant figures", {"eps": out["eps"], "sig": out["sig"]}, facts)
    if not (out["near_equal"] and out["far_unequal"] and out["lines"]):
        raise Fail("right after import the comparisons do not follow eps=1e-10", out, facts)


def check(case, ctx):
    if case and case[0] == "IMPORT":
        return check_import_defaults(case, ctx)
    account(case, ctx)
    run_history(case)


def machine(ctx):
    import sys

    prop = sys.modules[__name__]
    pargs = (
        st.integers(0, len(TYPES) - 1), st.integers(0, len(FRAMES) - 1), st.integers(0, len(BASES) - 1),
        st.integers(0, 2), st.integers(0, 7), st.integers(0, 2), st.booleans(),
    )
    rules = {
        "set_eps": (st.sampled_from(KS),),
        "set_sig": (st.sampled_from(KS),),
        "set_eps_any": (st.integers(0, len(MANTISSAS) - 1), st.sampled_from(KS[1:])),
        "default_eps": (),
        "default_sig": (),
        "save": (),
        "restore": (),
        "probe": pargs,
        "probe2": pargs,
        "probe3": pargs,
        "reprobe": (st.integers(0, 20),),
        "keep": (st.integers(0, len(TYPES) - 1), st.integers(0, len(FRAMES) - 1), st.integers(0, len(BASES) - 1)),
        "degenerate": (st.integers(0, len(FRAMES) - 1), st.integers(0, len(BASES) - 1), st.integers(0, 6), st.integers(0, 2)),
        "dupvertex": (st.integers(0, len(FRAMES) - 1), st.integers(0, len(BASES) - 1), st.integers(0, 3), st.integers(0, 4)),
        "bigpoly": (st.integers(0, 2), st.integers(0, 3), st.booleans()),
        "movekept": (st.integers(0, 5), st.integers(0, 2)),
        "cycle": (st.integers(0, 6), st.integers(0, len(FRAMES) - 1), st.integers(0, len(BASES) - 1), st.sampled_from(KS), st.integers(0, 5)),
        "recheck": (st.integers(0, 5), st.integers(0, 7), st.integers(0, 2)),
        "keep_coarsen_recheck": (st.integers(0, len(TYPES) - 1), st.integers(0, len(FRAMES) - 1), st.integers(0, len(BASES) - 1), st.integers(0, 1), st.integers(0, 7), st.integers(0, 2)),
        "recheck2": (st.integers(0, 5), st.integers(0, 7), st.integers(0, 2)),
    }
    init = st.tuples(st.just("CFG"), st.sampled_from(KS + (None,)), st.booleans())
    M = make_history_machine(ctx, prop, rules, init, step_count=14)
    return M


class _ExecutorAlias(Executor):
    pass


_orig_apply = Executor.apply


def _apply(self, step):
    name = step[0]
    if name in ("probe2", "probe3"):
        step = ("probe",) + tuple(step[1:])
    if name == "recheck2":
        step = ("recheck",) + tuple(step[1:])
    return _orig_apply(self, step)


Executor.apply = _apply


def enum_probes(shard, nshards):
    """complete sweep of the probe catalogue (all types except the slow polyhedron; every frame, two bases, the two
    coincidence perturbations, every defining point / coordinate / sign) under two non-default configurations"""
    i = 0
    for k in (5, 8):
        for setter in (True, False):
            if setter and k == 8:
                continue
            for ti, t in enumerate(TYPES):
                if t == "K":
                    continue
                for fi in range(len(FRAMES)):
                    for bi in (0, 2):
                        npts = len(catalogue(t, fi, bi)["pts"])
                        for pk in (0, 1):
                            for which in range(npts):
                                for coord in range(3):
                                    for sign in (True, False):
                                        i += 1
                                        if i % nshards == shard:
                                            yield ("HIST", ("CFG", k, setter), (("probe", ti, fi, bi, pk, which, coord, sign),))


def strata(tier):
    q = tier == "quick"
    return [
        Stratum("import-defaults", "once", lambda: [("IMPORT",)]),
        Stratum("probe-sweep", "enum", enum_probes),
        Stratum("config-history", "machine", machine, 640 if q else 20000),
    ]
