"""Runner: python -m g3dverif.run <ID> --tier quick|thorough   |   --replay <file>

Parent: fans out over shard subprocesses (each with a pinned PYTHONHASHSEED), merges their
statistics, writes evidence/<ID>.json, prints KNOWN-FINDING / VIOLATION lines.
exit 0 held, 1 violation, 2 harness error.
"""
import os
import sys
import json
import time
import argparse
import importlib
import subprocess
import tempfile
import shutil
import collections

from .common import VERIF_DIR, REPO, HarnessError, repo_head

NSHARDS = int(os.environ.get("G3DVERIF_SHARDS", "16"))


def load_prop(pid):
    return importlib.import_module("g3dverif.props." + pid.lower())


def hashseed(seed, shard, tier):
    # thorough varies the hash seed across shards; quick uses a few distinct ones too
    return str((seed * 7919 + shard * 104729 + (1 if tier == "thorough" else 0)) % 4294967295)


def _cov_start():
    """development aid (G3DVERIF_COV=<dir>): line coverage of the library under the checks, via sys.monitoring"""
    d = os.environ.get("G3DVERIF_COV")
    if not d or not hasattr(sys, "monitoring"):
        return None
    mon = sys.monitoring
    tool = mon.COVERAGE_ID
    hits = set()
    root = os.path.join(os.path.abspath(REPO), "Geometry3D") + os.sep

    def on_line(code, line):
        fn = code.co_filename
        if fn.startswith(root):
            hits.add((fn[len(root):], line))
        return mon.DISABLE

    mon.use_tool_id(tool, "g3dverif-cov")
    mon.register_callback(tool, mon.events.LINE, on_line)
    mon.set_events(tool, mon.events.LINE)
    return d, hits


def _cov_stop(state, tag):
    if not state:
        return
    d, hits = state
    os.makedirs(d, exist_ok=True)
    with open(os.path.join(d, tag + ".json"), "w") as f:
        json.dump(sorted(hits), f)


def worker_main(args):
    cov = _cov_start()
    try:
        return _worker_main(args)
    finally:
        _cov_stop(cov, "%s_%s_%d_%d" % (args.id, args.tier, args.seed, args.shard))


def _worker_main(args):
    from . import engine

    prop = load_prop(args.id)
    try:
        out = engine.run_shard(
            prop, args.tier, args.seed, args.shard, args.nshards, only=args.only or None
        )
        out["status"] = "ok"
    except HarnessError as e:
        out = {"status": "harness_error", "error": str(e)}
    except BaseException as e:
        import traceback

        out = {"status": "harness_error", "error": traceback.format_exc()[-4000:]}
    with open(args.out, "w") as f:
        json.dump(out, f)
    return 0


def merge(outs):
    m = {
        "evaluations": 0,
        "classes": collections.Counter(),
        "notes": collections.Counter(),
        "keys": set(),
        "unkeyed": 0,
        "nontrivial_total": 0,
        "discarded": collections.Counter(),
        "not_admitted": collections.Counter(),
        "dismissed": collections.Counter(),
        "dismissed_samples": [],
        "known": collections.Counter(),
        "known_samples": {},
        "samples": [],
        "violations": [],
        "exhaustive": set(),
        "per_stratum": collections.Counter(),
        "shard_wall": [],
    }
    for o in outs:
        m["evaluations"] += o["evaluations"]
        m["classes"].update(o["classes"])
        m["notes"].update(o.get("notes", {}))
        m["keys"].update(o["nontrivial_keys"])
        m["unkeyed"] += o["nontrivial_unkeyed"]
        m["nontrivial_total"] += o["nontrivial_total"]
        m["discarded"].update(o["discarded"])
        m["not_admitted"].update(o["not_admitted"])
        m["dismissed"].update(o["dismissed"])
        m["dismissed_samples"] += o["dismissed_samples"]
        m["known"].update(o["known"])
        for k, v in o["known_samples"].items():
            m["known_samples"].setdefault(k, v)
        m["samples"] += o["samples"]
        m["violations"] += o["violations"]
        m["exhaustive"].update(o["exhaustive"])
        m["per_stratum"].update(o["per_stratum"])
        m["shard_wall"].append(round(o.get("wall_s", 0), 1))
    return m


def pick_samples(samples, k=10):
    seen = set()
    out = []
    samples = sorted(samples, key=lambda s: (not s.get("nontrivial", False), s.get("stratum") == "regress"))
    for s in samples:
        c = (s.get("stratum"), s.get("class"))
        if c in seen:
            continue
        seen.add(c)
        out.append(s)
    # spread over strata
    by = collections.OrderedDict()
    for s in out:
        by.setdefault(s.get("stratum"), []).append(s)
    res = []
    while len(res) < k and any(by.values()):
        for st in list(by):
            if by[st]:
                res.append(by[st].pop(0))
                if len(res) >= k:
                    break
    return res


def main(argv=None):
    ap = argparse.ArgumentParser()
    ap.add_argument("id")
    ap.add_argument("--tier", default=os.environ.get("VERIF_TIER", "quick"))
    ap.add_argument("--replay")
    ap.add_argument("--worker", action="store_true")
    ap.add_argument("--shard", type=int, default=0)
    ap.add_argument("--nshards", type=int, default=NSHARDS)
    ap.add_argument("--seed", type=int, default=None)
    ap.add_argument("--out")
    ap.add_argument("--only", action="append")
    ap.add_argument("--no-evidence", action="store_true")
    args = ap.parse_args(argv)
    args.id = args.id.upper()
    if args.tier not in ("quick", "thorough"):
        args.tier = "quick"
    if args.seed is None:
        try:
            args.seed = int(os.environ.get("VERIF_SEED", "0"))
        except ValueError:
            args.seed = 0

    if args.worker:
        return worker_main(args)

    if args.replay:
        return replay_main(args)

    t0 = time.time()
    prop = load_prop(args.id)
    nsh = getattr(prop, "NSHARDS", {}).get(args.tier, args.nshards) if isinstance(
        getattr(prop, "NSHARDS", None), dict
    ) else args.nshards
    work = tempfile.mkdtemp(prefix="g3dverif_%s_" % args.id, dir=os.path.join(VERIF_DIR, ".work") if _mkwork() else None)
    procs = []
    try:
        for sh in range(nsh):
            out = os.path.join(work, "shard%d.json" % sh)
            env = dict(os.environ)
            env["PYTHONHASHSEED"] = hashseed(args.seed, sh, args.tier)
            env["PYTHONDONTWRITEBYTECODE"] = "1"
            env["PYTHONPATH"] = VERIF_DIR + os.pathsep + env.get("PYTHONPATH", "")
            cmd = [
                sys.executable, "-m", "g3dverif.run", args.id, "--worker", "--tier", args.tier,
                "--shard", str(sh), "--nshards", str(nsh), "--seed", str(args.seed), "--out", out,
            ]
            for o in args.only or []:
                cmd += ["--only", o]
            errf = open(os.path.join(work, "shard%d.err" % sh), "w")
            procs.append((sh, out, subprocess.Popen(cmd, cwd=VERIF_DIR, env=env, stdout=errf, stderr=errf), errf))
        outs = []
        herr = []
        for sh, out, p, errf in procs:
            p.wait()
            errf.close()
            if not os.path.exists(out):
                err = open(os.path.join(work, "shard%d.err" % sh)).read()[-3000:]
                herr.append("shard %d produced no output (exit %s): %s" % (sh, p.returncode, err))
                continue
            with open(out) as f:
                o = json.load(f)
            if o.get("status") != "ok":
                herr.append("shard %d: %s" % (sh, o.get("error")))
                continue
            outs.append(o)
        # coverage-guided supplement (thorough tier only, properties that define fuzz_strategy)
        fz = getattr(prop, "FUZZ", None)
        fuzz_info = None
        if args.tier == "thorough" and fz and hasattr(prop, "fuzz_strategy") and not herr and not args.only:
            fprocs = []
            for sh in range(nsh):
                out = os.path.join(work, "fuzz%d.json" % sh)
                env = dict(os.environ)
                env["PYTHONHASHSEED"] = hashseed(args.seed, sh, args.tier)
                env["PYTHONDONTWRITEBYTECODE"] = "1"
                env["PYTHONPATH"] = VERIF_DIR + os.pathsep + os.path.join(VERIF_DIR, ".deps") + os.pathsep + env.get("PYTHONPATH", "")
                cmd = [sys.executable, "-m", "g3dverif.fuzz", args.id, "--runs", os.environ.get("G3DVERIF_FUZZ_RUNS", str(fz["runs"])), "--seed", str(args.seed * 1000 + sh),
                       "--shard", str(sh), "--out", out, "--max-seconds", str(fz.get("max_seconds", 0)), "--corpus", os.path.join(work, "corpus%d" % sh)]
                errf = open(os.path.join(work, "fuzz%d.err" % sh), "w")
                fprocs.append((sh, out, subprocess.Popen(cmd, cwd=VERIF_DIR, env=env, stdout=errf, stderr=errf), errf))
            fuzz_info = {"engine": "atheris/libFuzzer over the same Hypothesis strategies (fuzz_one_input), Geometry3D instrumented", "shards": nsh, "inputs": 0, "evaluations": 0, "status": "ok"}
            for sh, out, p, errf in fprocs:
                p.wait()
                errf.close()
                if not os.path.exists(out):
                    herr.append("fuzz shard %d produced no output: %s" % (sh, open(os.path.join(work, "fuzz%d.err" % sh)).read()[-1500:]))
                    continue
                with open(out) as f:
                    o = json.load(f)
                if o.get("status") == "unavailable":
                    fuzz_info["status"] = "atheris unavailable, supplement skipped: " + o.get("error", "")
                    continue
                fuzz_info["inputs"] += o.get("fuzz_inputs", 0)
                fuzz_info["evaluations"] += o.get("evaluations", 0)
                outs.append(o)
    finally:
        shutil.rmtree(work, ignore_errors=True)
    if herr:
        sys.stderr.write("HARNESS-ERROR property=%s\n%s\n" % (args.id, "\n".join(herr[:3])))
        return 2
    m = merge(outs)
    wall = time.time() - t0
    distinct = len(m["keys"]) + m["unkeyed"]
    head, dirty = repo_head()
    from .engine import known_findings

    kf = {e["id"]: e for e in known_findings()}
    for kid, cnt in sorted(m["known"].items()):
        e = kf.get(kid, {})
        print("KNOWN-FINDING: property=%s %s [%s; matched %d cases]" % (args.id, e.get("what", kid), kid, cnt))
    seen = set()
    nviol = 0
    for v in m["violations"]:
        if v["sig"] in seen:
            continue
        seen.add(v["sig"])
        nviol += 1
        print("VIOLATION property=%s replay=%s" % (args.id, v["replay"]))
        print("  stratum=%s sig=%s" % (v["stratum"], v["sig"]))
    ndis = sum(m["dismissed"].values())
    if ndis > max(5, m["evaluations"] // 100):
        sys.stderr.write("WARNING high-dismissal-rate property=%s dismissed=%d of %d\n" % (args.id, ndis, m["evaluations"]))
    health = None
    if hasattr(prop, "health") and not nviol and not args.only:
        health = prop.health(m, args.tier)
        if health:
            sys.stderr.write("HARNESS-ERROR property=%s generator health: %s\n" % (args.id, health))
    ev = {
        "property_id": args.id,
        "tier": args.tier,
        "seed": args.seed,
        "level": "exploration",
        "coverage": {
            "evaluations": m["evaluations"],
            "distinct_nontrivial": distinct,
            "nontrivial_total": m["nontrivial_total"],
            "rule": prop.RULE,
            "samples": pick_samples(m["samples"]),
            "classes": dict(sorted(m["classes"].items())),
            "notes": dict(sorted(m["notes"].items())),
            "per_stratum": dict(sorted(m["per_stratum"].items())),
            "discarded": dict(m["discarded"]),
            "not_admitted": dict(m["not_admitted"]),
            "dismissed": dict(m["dismissed"]),
            "dismissed_samples": m["dismissed_samples"][:5],
            "known_findings": dict(m["known"]),
            "known_finding_samples": m["known_samples"],
            "violations": m["violations"][:5],
            "exhaustive": False,
            "exhaustive_subdomains": sorted(m["exhaustive"]),
            "shards": nsh,
            "shard_wall_s": m["shard_wall"],
            "repo": REPO,
            "repo_head": head,
            "repo_dirty": dirty,
            "coverage_guided_supplement": fuzz_info,
        },
        "assumptions": list(getattr(prop, "ASSUMPTIONS", [])),
        "wall_s": round(wall, 2),
        "violations": nviol,
    }
    if not args.no_evidence:
        os.makedirs(os.path.join(VERIF_DIR, "evidence"), exist_ok=True)
        with open(os.path.join(VERIF_DIR, "evidence", args.id + ".json"), "w") as f:
            json.dump(ev, f, indent=1, sort_keys=True)
            f.write("\n")
    print(
        "%s %s seed=%d: %d evaluations, %d distinct non-trivial, %d known-finding cases, %d dismissed, %d violations, %.1fs"
        % (args.id, args.tier, args.seed, m["evaluations"], distinct, sum(m["known"].values()), ndis, nviol, wall)
    )
    if health:
        return 2
    return 1 if nviol else 0


def _mkwork():
    try:
        os.makedirs(os.path.join(VERIF_DIR, ".work"), exist_ok=True)
        return True
    except OSError:
        return False


def replay_main(args):
    from . import engine

    prop = load_prop(args.id)
    path = args.replay
    if not os.path.isabs(path):
        path = os.path.join(VERIF_DIR, path)
    # same hash seed as the shard that found it, when recorded
    try:
        with open(path) as f:
            body = json.load(f)
    except Exception as e:
        sys.stderr.write("HARNESS-ERROR cannot read replay %s: %s\n" % (path, e))
        return 2
    want = body.get("pythonhashseed")
    if want and os.environ.get("PYTHONHASHSEED") != want and not os.environ.get("G3DVERIF_REEXEC"):
        env = dict(os.environ)
        env["PYTHONHASHSEED"] = want
        env["G3DVERIF_REEXEC"] = "1"
        return subprocess.call([sys.executable, "-m", "g3dverif.run"] + sys.argv[1:], env=env, cwd=VERIF_DIR)
    try:
        bad, msg = engine.replay(prop, path)
    except HarnessError as e:
        sys.stderr.write("HARNESS-ERROR %s\n" % e)
        return 2
    if bad:
        print("VIOLATION property=%s replay=%s" % (args.id, os.path.relpath(path, VERIF_DIR)))
        print("  sig=%s" % msg)
        return 1
    print("replay %s: property held (%s)" % (os.path.relpath(path, VERIF_DIR), msg))
    return 0


if __name__ == "__main__":
    sys.exit(main())
