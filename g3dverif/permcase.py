"""Cases for C06 / C09: one exact body plus a representation (vertex order with repeats, face order,
face orientation flips) in which it is handed to the library constructors."""
import itertools
from fractions import Fraction as F

from hypothesis import strategies as st, assume

from . import exact as X, bridge as B, genbody as GB
from .common import lib


@st.composite
def vertex_order(draw, m, allow_dup=True):
    """a sequence over range(m) containing every index at least once (a permutation plus repeats)"""
    perm = list(draw(st.permutations(range(m))))
    if allow_dup and draw(st.integers(0, 2)) == 0:
        k = draw(st.integers(1, 2))
        for _ in range(k):
            pos = draw(st.integers(0, len(perm)))
            perm.insert(pos, draw(st.integers(0, m - 1)))
    return tuple(perm)


@st.composite
def polygon_case(draw, nmin=3, nmax=8):
    g = draw(GB.polygon(nmin, nmax))
    return ("G", g[1], draw(vertex_order(len(g[1]))))


@st.composite
def needle_polygon_case(draw):
    """long and thin: a base spanning most of the coordinate range and a quarter-lattice height (triangles, thin
    quadrilaterals), and slivers of tetrahedra built on them; every point is a lattice point, no two directions are
    closer than a few degrees... except by construction: the thin angle is about 0.25 / 20 rad, still more than ten
    times the admission margin"""
    d = draw(GB.direction(2))
    L = draw(st.sampled_from((4, 5, 6, 7)))
    while max(abs(c) for c in X.mul(L, d)) > 8:
        L -= 1
    assume(L >= 2)
    a = X.mul(F(-L), d)
    b = X.mul(F(L), d)
    u, v = X.perp2(d)
    w = draw(st.sampled_from((u, v, X.add(u, v))))
    w = X.mul(F(1, 4) / max(1, max(abs(c) for c in w)), w)  # quarter-lattice, short
    t = draw(st.sampled_from((F(0), F(1, 2), F(-1, 2), F(1, 4))))
    c = X.add(X.mul(t * L, d), w)
    pts = [a, b, c]
    if draw(st.booleans()):
        pts.append(X.sub(X.mul(draw(st.sampled_from((F(0), F(1, 4), F(-1, 2)))) * L, d), w))  # thin kite
    g = X.make_G(pts)
    assume(len(g[1]) == len(pts))
    sh = draw(GB.lattice_point(2))
    sh = tuple(F(int(x)) for x in sh)
    q = [X.add(p_, sh) for p_ in g[1]]
    assume(max(abs(c_) for p_ in q for c_ in p_) <= 10)
    return ("G", q, draw(vertex_order(len(q))))


@st.composite
def polyhedron_case(draw, family=None):
    K = draw(GB.polyhedron(family))
    nf = len(K[2])
    forder = tuple(draw(st.permutations(range(nf))))
    vorders = tuple(draw(vertex_order(len(K[2][i][2]), allow_dup=True)) for i in range(nf))
    flips = tuple(draw(st.booleans()) for _ in range(nf))
    return ("K", K, forder, vorders, flips)


@st.composite
def pyramid_case(draw):
    g = draw(GB.polygon(3, 6))
    n = X.poly_normal(g[1])
    w = draw(GB.direction(2))
    assume(X.dot(w, n) != 0)
    base_pt = draw(st.sampled_from(g[1]))
    k = draw(st.sampled_from((F(1), F(-1), F(1, 2), F(2), F(-3, 2))))
    apex = X.add(base_pt, X.mul(k, w))
    return ("PYR", g[1], draw(vertex_order(len(g[1]))), apex)


def build_polygon(pts, order, ctype=float):
    G = lib()
    return G.ConvexPolygon(tuple(B.pt(pts[i], ctype) for i in order))


def build_case(case, ctype=float):
    G = lib()
    k = case[0]
    if k == "G":
        return build_polygon(case[1], case[2], ctype)
    if k == "K":
        _k, K, forder, vorders, flips = case
        faces = []
        for fi in forder:
            idx = K[2][fi][2]
            pts = [K[1][i] for i in idx]
            poly = build_polygon(pts, vorders[fi], ctype)
            if flips[fi]:
                poly = -poly
            faces.append(poly)
        return G.ConvexPolyhedron(tuple(faces))
    if k == "PYR":
        base = build_polygon(case[1], case[2], ctype)
        return G.Pyramid(base, B.pt(case[3], ctype), direct_call=False)
    raise ValueError(k)


def is_permuted(case):
    k = case[0]
    if k == "G":
        return tuple(case[2]) != tuple(range(len(case[1])))
    if k == "K":
        return True
    return True
