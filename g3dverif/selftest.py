"""Self-test of the exact kernel and harness (run by setup_cmd; < 2 s). Exit 0 ok, 2 broken."""
import sys
import random
from fractions import Fraction as F

from . import exact as X


def check(cond, msg):
    if not cond:
        raise AssertionError(msg)


def cube(o=(0, 0, 0), s=1):
    pts = [(o[0] + s * a, o[1] + s * b, o[2] + s * c) for a in (0, 1) for b in (0, 1) for c in (0, 1)]
    return X.make_K(pts)


def main():
    # rank / rref
    check(X.rank([[1, 2], [2, 4]]) == 1, "rank")
    check(X.rank([[0, 0, 0]]) == 0, "rank0")
    check(X.rank([[1, 0, 0], [0, 1, 0], [1, 1, 1]]) == 3, "rank3")
    # cube
    K = cube()
    V, E, Fc = X.euler(K)
    check((V, E, Fc) == (8, 12, 6), "cube euler %s" % ((V, E, Fc),))
    check(X.volume(K) == 1, "cube volume")
    check(abs(X.surface_area(K) - 6) < 1e-12, "cube area")
    check(abs(X.perimeter(K) - 12) < 1e-12, "cube perimeter")
    # hull drops interior / edge / face points
    K2 = X.make_K(list(K[1]) + [(F(1, 2), F(1, 2), F(1, 2)), (F(1, 2), 0, 0), (F(1, 2), F(1, 2), 0)])
    check(X.euler(K2) == (8, 12, 6), "hull drops non-extreme points")
    # vertex enumeration vs hull
    vs = X.vertices(X.hrep(K))
    check(vs == set(X.fr(p) for p in K[1]), "vertices(hrep(cube))")
    # cube ∩ shifted cube
    K3 = cube((F(1, 2), F(1, 2), F(1, 2)))
    I = X.inter(K, K3)
    check(I[0] == "K" and X.volume(I) == F(1, 8), "cube overlap volume")
    I = X.inter(K, cube((1, 0, 0)))
    check(I[0] == "G" and len(I[1]) == 4, "cube face contact")
    I = X.inter(K, cube((1, 1, 0)))
    check(I[0] == "S", "cube edge contact")
    I = X.inter(K, cube((1, 1, 1)))
    check(I == ("P", (1, 1, 1)), "cube vertex contact")
    check(X.inter(K, cube((2, 0, 0))) is None, "cube disjoint")
    # flat pairs
    L1 = ("L", (0, 0, 0), (1, 0, 0))
    check(X.inter_flat(L1, ("L", (0, 1, 0), (1, 0, 0))) is None, "parallel lines")
    check(X.inter_flat(L1, ("L", (5, 0, 0), (-2, 0, 0)))[0] == "L", "same line")
    check(X.inter_flat(L1, ("L", (1, 1, 0), (0, 1, 0))) == ("P", (1, 0, 0)), "crossing lines")
    check(X.inter_flat(L1, ("L", (1, 1, 1), (0, 1, 0))) is None, "skew lines")
    S1 = ("S", (0, 0, 0), (2, 0, 0))
    check(X.inter_flat(S1, ("S", (2, 0, 0), (3, 0, 0))) == ("P", (2, 0, 0)), "touching segments")
    r = X.inter_flat(S1, ("S", (1, 0, 0), (3, 0, 0)))
    check(r[0] == "S" and {r[1], r[2]} == {(1, 0, 0), (2, 0, 0)}, "overlapping segments")
    r = X.inter_flat(("H", (0, 0, 0), (1, 0, 0)), ("H", (2, 0, 0), (-1, 0, 0)))
    check(r[0] == "S", "opposite half-lines overlap")
    r = X.inter_flat(("H", (0, 0, 0), (1, 0, 0)), ("H", (2, 0, 0), (3, 0, 0)))
    check(r[0] == "H" and r[1] == (2, 0, 0), "nested half-lines")
    r = X.inter_flat(("PL", (0, 0, 0), (0, 0, 1)), ("PL", (0, 0, 0), (1, 0, 0)))
    check(r[0] == "L" and X.is_zero(X.cross(r[2], (0, 1, 0))), "plane-plane line")
    # inter_flat against vertex enumeration inside a big box, random lattice flats
    rnd = random.Random(7)

    def rp():
        return tuple(F(rnd.randint(-8, 8), rnd.choice([1, 2])) for _ in range(3))

    def rd():
        while True:
            d = tuple(F(rnd.randint(-2, 2)) for _ in range(3))
            if any(d):
                return d

    box = X.bbox_clip(None, 40)
    for _ in range(150):
        ka, kb = rnd.choice(["P", "L", "H", "S", "PL"]), rnd.choice(["L", "H", "S", "PL"])

        def mk(k):
            if k == "P":
                return ("P", rp())
            if k in ("L", "H"):
                return (k, rp(), rd())
            if k == "S":
                p = rp()
                return ("S", p, X.add(p, rd()))
            return ("PL", rp(), rd())

        a = mk(ka)
        b = mk(kb)
        if rnd.random() < 0.5 and a[0] != "P":
            # relate b to a: put b's support on a's carrier
            p = a[1]
            b = (b[0], p) + tuple(b[2:]) if b[0] != "S" else ("S", p, X.add(p, X.sub(b[2], b[1])))
        r1 = X.inter_flat(a, b)
        vs = X.vertices(X.hrep(a) + X.hrep(b) + box)
        if r1 is None:
            check(not vs, "inter_flat None but box vertices %s %s" % (a, b))
        elif r1[0] == "P":
            check(vs == {X.fr(r1[1])}, "inter_flat point vs vertices %s %s" % (a, b))
        elif r1[0] == "S":
            inbox = all(abs(c) <= 40 for p in (r1[1], r1[2]) for c in p)
            if inbox:
                check(vs == {X.fr(r1[1]), X.fr(r1[2])}, "inter_flat segment vs vertices %s %s" % (a, b))
        else:
            check(len(vs) >= 2, "inter_flat unbounded but box vertices %s" % (vs,))
        check(X.inter_flat(b, a) is None if r1 is None else X.inter_flat(b, a)[0] == r1[0], "inter_flat symmetric")
    # polygon helpers
    G = X.make_G([(0, 0, 0), (2, 0, 0), (2, 2, 0), (0, 2, 0), (1, 1, 0), (1, 0, 0)])
    check(len(G[1]) == 4, "make_G drops non-vertices")
    check(X.polygon_area2(G[1]) == 16, "polygon area")
    check(X.contains(G, (1, 1, 0)) and not X.contains(G, (3, 1, 0)) and not X.contains(G, (1, 1, 1)), "polygon contains")
    # distances
    check(X.dist2(("P", (0, 0, 1)), ("L", (0, 0, 0), (1, 0, 0))) == 1, "dist P-L")
    check(X.dist2(("L", (0, 0, 1), (0, 1, 0)), ("L", (0, 0, 0), (1, 0, 0))) == 1, "dist skew")
    check(X.dist2(("L", (0, 0, 1), (1, 0, 0)), ("L", (0, 0, 0), (2, 0, 0))) == 1, "dist parallel")
    check(X.dist2(("L", (0, 0, 1), (1, 0, 0)), ("PL", (0, 0, 0), (0, 0, 2))) == 1, "dist L-PL")
    print("selftest ok")
    return 0


if __name__ == "__main__":
    try:
        sys.exit(main())
    except AssertionError as e:
        sys.stderr.write("SELFTEST-FAILED %s\n" % e)
        sys.exit(2)
