"""Shared plumbing: importing the library from the tree under test, JSON for exact cases."""
import os
import sys
import json
import hashlib
import logging
from fractions import Fraction as F

VERIF_DIR = os.path.dirname(os.path.dirname(os.path.abspath(__file__)))
REPO = os.environ.get("G3DVERIF_REPO", "/repo")
GUARD = "GEOMETRY3D_VERIF"


class HarnessError(Exception):
    """something is wrong with the checking machinery itself (exit 2, never a violation)"""


_G = None


def lib():
    """import Geometry3D from the tree under test (REPO), verified"""
    global _G
    if _G is not None:
        return _G
    repo = os.path.abspath(REPO)
    if sys.path[0] != repo:
        sys.path.insert(0, repo)
    sys.dont_write_bytecode = True
    os.environ[GUARD] = "1"
    import Geometry3D as G

    f = os.path.abspath(G.__file__)
    if not f.startswith(repo + os.sep):
        raise HarnessError("Geometry3D imported from %s, expected under %s" % (f, repo))
    # the library reconfigures logging at import; logging is not under test
    logging.disable(logging.CRITICAL)
    try:
        G.set_log_level("CRITICAL")
    except Exception:
        pass
    _G = G
    return G


def reset_config():
    """back to the default tolerance.  Best effort: if the setters themselves fail, that is C19's finding (its
    histories call them under guard and report it); the other checks then simply run at whatever the
    import-time configuration is, which is the default they need."""
    G = lib()
    try:
        G.set_eps()
        G.set_sig_figures()
    except Exception:
        pass


def repo_head():
    import subprocess

    try:
        h = subprocess.run(
            ["git", "-C", REPO, "rev-parse", "HEAD"], capture_output=True, text=True
        ).stdout.strip()
        d = subprocess.run(
            ["git", "-C", REPO, "status", "--porcelain", "--untracked-files=no"],
            capture_output=True,
            text=True,
        ).stdout.strip()
        return h, bool(d)
    except Exception:
        return "", False


# ---------------------------------------------------------------- JSON for exact values
def enc(x):
    """JSON-able encoding; Fractions become 'n/d' strings, tuples lists"""
    if isinstance(x, F):
        if x.denominator == 1:
            return int(x.numerator)
        return "%d/%d" % (x.numerator, x.denominator)
    if isinstance(x, bool) or x is None or isinstance(x, (int, str)):
        return x
    if isinstance(x, float):
        return {"f": repr(x)}
    if isinstance(x, (list, tuple)):
        return [enc(y) for y in x]
    if isinstance(x, dict):
        return {str(k): enc(v) for k, v in x.items()}
    if isinstance(x, (set, frozenset)):
        return sorted((enc(y) for y in x), key=lambda z: json.dumps(z, sort_keys=True))
    return repr(x)


def dec(x):
    """inverse of enc: lists become tuples, 'n/d' strings Fractions"""
    if isinstance(x, str):
        if "/" in x:
            a, _, b = x.partition("/")
            try:
                return F(int(a), int(b))
            except ValueError:
                return x
        return x
    if isinstance(x, list):
        return tuple(dec(y) for y in x)
    if isinstance(x, dict):
        if set(x.keys()) == {"f"}:
            return float(x["f"])
        return {k: dec(v) for k, v in x.items()}
    return x


def key_of(x):
    """64-bit digest of a canonical encoding (for distinct counting)"""
    s = json.dumps(enc(x), sort_keys=True, separators=(",", ":"))
    return int.from_bytes(hashlib.blake2b(s.encode(), digest_size=8).digest(), "big")


def short(x, n=400):
    s = json.dumps(enc(x), separators=(",", ":"))
    return s if len(s) <= n else s[: n - 3] + "..."
