"""Admission: the domain restriction shared by C01-C13, C17, C20.

A case is admitted iff every incidence it contains is exact or violated by a relative margin
> 1e-3.  The functions here compute, exactly, the smallest normalised non-zero value among the
quantities an incidence test would look at (A1 directions, A2 point-feature distances, A3
extent parameters, A4 point distinctness) for the operands and the exact results.
"""
import math
from fractions import Fraction as F

from . import exact as X

MARGIN = 1e-3


class Margin(object):
    def __init__(self):
        self.best = None
        self.why = None

    def see(self, value, why):
        """value: a float >= 0; zeros are exact incidences and ignored"""
        if value == 0:
            return
        if self.best is None or value < self.best:
            self.best = value
            self.why = why

    def ok(self):
        return self.best is None or self.best > MARGIN

    def reason(self):
        if self.ok():
            return None
        return "%s=%.3g" % (self.why, self.best)


def _len(v):
    return math.sqrt(float(X.dot(v, v)))


def _sin(u, v):
    lu, lv = _len(u), _len(v)
    if lu == 0 or lv == 0:
        return 0.0
    return _len(X.cross(u, v)) / (lu * lv)


def _cos(u, v):
    lu, lv = _len(u), _len(v)
    if lu == 0 or lv == 0:
        return 0.0
    return abs(float(X.dot(u, v))) / (lu * lv)


def features(o):
    """(points, lines[(p,d)], planes[(p,n)], dirs, normals) of a descriptor"""
    k = o[0]
    pts, lines, planes, dirs, normals = [], [], [], [], []
    if k == "P":
        pts = [o[1]]
    elif k in ("L", "H"):
        pts = [o[1]]
        lines = [(o[1], o[2])]
        dirs = [o[2]]
    elif k == "S":
        d = X.sub(o[2], o[1])
        pts = [o[1], o[2]]
        lines = [(o[1], d), (o[2], d)]
        dirs = [d]
    elif k == "PL":
        pts = [o[1]]
        planes = [(o[1], o[2])]
        normals = [o[2]]
    elif k == "G":
        pts = list(o[1])
        n = X.poly_normal(o[1])
        planes = [(o[1][0], n)]
        normals = [n]
        for p, q in X.edges_of(o):
            d = X.sub(q, p)
            lines += [(p, d), (q, d)]
            dirs.append(d)
    elif k == "K":
        pts = list(o[1])
        for n, b, idx in o[2]:
            planes.append((o[1][idx[0]], n))
            normals.append(n)
        for p, q in X.edges_of(o):
            d = X.sub(q, p)
            lines += [(p, d), (q, d)]
            dirs.append(d)
    return pts, lines, planes, dirs, normals


def pair_margin(a, b, m=None, extra_points=()):
    """margins between the features of two descriptors (and extra exact result points)"""
    m = m or Margin()
    fa = features(a)
    fb = features(b)
    for (f1, f2) in ((fa, fb), (fb, fa)):
        pts1 = list(f1[0])
        _pts2, lines2, planes2, dirs2, normals2 = f2
        for p in pts1 + list(extra_points):
            for q in f2[0]:
                m.see(_len(X.sub(p, q)), "point-point")
            for (q, d) in lines2:
                w = X.sub(p, q)
                lw = _len(w)
                if lw == 0:
                    continue
                c = _len(X.cross(w, d)) / _len(d)
                m.see(c, "point-line distance")
                m.see(c / lw, "point-line angle")
            for (q, n) in planes2:
                m.see(abs(float(X.dot(X.sub(p, q), n))) / _len(n), "point-plane distance")
    # directions (once, symmetric).  Only parallelism is an incidence: direction x direction and
    # normal x normal by their sine, line-in/parallel-to-plane by the direction . normal cosine.
    # (Perpendicularity of two lines or two planes is not an incidence the domain sentence names.)
    for u in fa[3]:
        for v in fb[3]:
            m.see(_sin(u, v), "direction-direction sine")
        for n in fb[4]:
            m.see(_cos(u, n), "direction-normal cosine")
    for u in fb[3]:
        for n in fa[4]:
            m.see(_cos(u, n), "direction-normal cosine")
    for n1 in fa[4]:
        for n2 in fb[4]:
            m.see(_sin(n1, n2), "normal-normal sine")
    return m


def extent_margin(o, pts, m):
    """A3: parameters of points on a bounded / half-bounded 1-D operand, relative to its ends"""
    if o[0] not in ("S", "H"):
        return m
    p = o[1]
    d = X.sub(o[2], o[1]) if o[0] == "S" else o[2]
    dd = F(X.dot(d, d))
    L = math.sqrt(float(dd))
    for q in pts:
        t = float(F(X.dot(X.sub(q, p), d)) / dd)
        m.see(abs(t), "extent parameter at start")
        m.see(abs(t) * L, "extent distance at start")
        if o[0] == "S":
            m.see(abs(1 - t), "extent parameter at end")
            m.see(abs(1 - t) * L, "extent distance at end")
    return m


def carrier_crossing(a, b):
    """crossing point of the carriers of two 1-D flats / a 1-D flat and a plane, if unique"""
    one = ("L", "H", "S")
    la = ("L", a[1], X.sub(a[2], a[1]) if a[0] == "S" else a[2]) if a[0] in one else a
    lb = ("L", b[1], X.sub(b[2], b[1]) if b[0] == "S" else b[2]) if b[0] in one else b
    if la[0] in ("L", "PL") and lb[0] in ("L", "PL") and not (la[0] == "PL" and lb[0] == "PL"):
        r = X.inter_flat(la, lb)
        if r is not None and r[0] == "P":
            return r[1]
    return None


def result_points(r):
    if r is None:
        return []
    k = r[0]
    if k == "P":
        return [r[1]]
    if k == "S":
        return [r[1], r[2]]
    if k in ("H", "L", "PL"):
        return [r[1]] if k == "H" else []
    return list(X.verts_of(r))


def flat_case_margin(a, b, r):
    """admission margin for a flat/flat case with exact result r"""
    extra = result_points(r)
    x = carrier_crossing(a, b)
    if x is not None:
        extra = extra + [x]
    m = pair_margin(a, b, extra_points=())
    one = ("L", "H", "S")
    if a[0] in one and b[0] in one:
        la = ("L", a[1], X.sub(a[2], a[1]) if a[0] == "S" else a[2])
        lb = ("L", b[1], X.sub(b[2], b[1]) if b[0] == "S" else b[2])
        m.see(math.sqrt(float(X.dist2(la, lb))), "carrier-carrier distance")
    # result / crossing points against both operands' extents
    extent_margin(a, extra + features(b)[0], m)
    extent_margin(b, extra + features(a)[0], m)
    return m


def body_case_margin(a, b, r):
    """admission margin when at least one operand is a polygon / polyhedron: features of the
    operands against each other plus the exact result's vertices against both operands"""
    extra = result_points(r)
    m = pair_margin(a, b)
    for o in (a, b):
        H = X.hrep(o)
        for p in extra:
            v = X.min_margin(p, H)
            if v is not None:
                m.see(v, "result vertex vs constraint")
        extent_margin(o, extra, m)
    # distinctness of result vertices
    for i in range(len(extra)):
        for j in range(i + 1, len(extra)):
            m.see(_len(X.sub(extra[i], extra[j])), "result vertices distinct")
    return m
