"""Strategies for convex polygons / polyhedra, flats related to a body, and related bodies.
Exact by construction: frames and hulls over lattice points."""
import itertools
from fractions import Fraction as F

from hypothesis import strategies as st, assume

from . import exact as X
from .gen import direction, lattice_point, SCALES, T_TABLE

def moderate(v, target=2):
    """positive dyadic multiple of the integer vector v whose largest component is about `target`
    (face normals of lattice bodies can have components in the thousands; used as an offset they would
    throw constructed operands far outside the lattice domain)"""
    m = max(abs(F(c)) for c in v)
    if m == 0:
        return tuple(F(c) for c in v)
    s = F(1)
    while m * s > target:
        s /= 2
    return tuple(F(c) * s for c in v)


def max_coord(o):
    """largest absolute coordinate of a bounded descriptor"""
    pts = o[1] if o[0] in ("G", "K") else [p for p in o[1:] if isinstance(p, tuple)]
    return max(abs(c) for p in pts for c in p)


# ---------------------------------------------------------------- 2-D convex lattice shapes
SHAPES2 = {
    3: [[(0, 0), (2, 0), (0, 2)], [(0, 0), (3, 1), (1, 2)], [(-1, -1), (2, 0), (0, 3)], [(0, 0), (1, 0), (0, 1)]],
    4: [[(0, 0), (2, 0), (2, 2), (0, 2)], [(0, 0), (3, 0), (2, 2), (0, 1)], [(-1, 0), (0, -2), (2, 0), (0, 1)], [(0, 0), (2, 0), (3, 1), (1, 1)]],
    5: [[(0, 0), (2, 0), (3, 1), (2, 3), (0, 2)], [(-1, 0), (1, -1), (2, 1), (1, 2), (-1, 2)]],
    6: [[(1, 0), (2, 1), (2, 2), (1, 3), (0, 2), (0, 1)], [(0, 0), (2, 0), (3, 1), (3, 2), (1, 2), (0, 1)]],
    7: [[(1, 0), (2, 0), (3, 1), (3, 2), (2, 3), (1, 3), (0, 1)]],
    8: [[(1, 0), (2, 0), (3, 1), (3, 2), (2, 3), (1, 3), (0, 2), (0, 1)]],
}


def hull2(points):
    """strictly convex hull of 2-D integer points, counter-clockwise"""
    pts = sorted(set(points))
    if len(pts) < 3:
        return pts

    def cr(o, a, b):
        return (a[0] - o[0]) * (b[1] - o[1]) - (a[1] - o[1]) * (b[0] - o[0])

    lo = []
    for p in pts:
        while len(lo) >= 2 and cr(lo[-2], lo[-1], p) <= 0:
            lo.pop()
        lo.append(p)
    up = []
    for p in reversed(pts):
        while len(up) >= 2 and cr(up[-2], up[-1], p) <= 0:
            up.pop()
        up.append(p)
    return lo[:-1] + up[:-1]


_HALF_DIRS = [(1, 0), (2, 1), (1, 1), (1, 2), (0, 1), (-1, 2), (-1, 1), (-2, 1)]  # primitive, by increasing angle in [0, pi)


@st.composite
def zonogon2(draw, n):
    """irregular convex lattice polygon with n in 6..8 vertices: k edge directions with multiplicities, each followed
    half a turn later by its negative (a zonogon, 2k vertices); for odd n one corner is cut off. Elongated and
    lopsided shapes included - the vertices are not equidistant from the centre."""
    k = (n + 1) // 2
    idx = sorted(draw(st.lists(st.integers(0, len(_HALF_DIRS) - 1), min_size=k, max_size=k, unique=True)))
    mult = [draw(st.sampled_from((1, 1, 2, 3))) for _ in range(k)]
    es = [(_HALF_DIRS[i][0] * m, _HALF_DIRS[i][1] * m) for i, m in zip(idx, mult)]
    es = es + [(-a, -b) for a, b in es]
    if n % 2 == 1:
        j = draw(st.integers(0, len(es) - 1))
        a, b = es[j], es[(j + 1) % len(es)]
        merged = (a[0] + b[0], a[1] + b[1])
        es = [e for t, e in enumerate(es) if t not in (j, (j + 1) % len(es))]
        es.insert(j if j < len(es) + 1 else 0, merged)
        import math as _m

        es.sort(key=lambda e: _m.atan2(e[1], e[0]) % (2 * _m.pi))
    pts = [(0, 0)]
    for e in es[:-1]:
        pts.append((pts[-1][0] + e[0], pts[-1][1] + e[1]))
    cx = sum(p[0] for p in pts) // len(pts)
    cy = sum(p[1] for p in pts) // len(pts)
    pts = [(a - cx, b - cy) for a, b in pts]
    h = hull2(pts)
    assume(len(h) == n and max(abs(c) for p in h for c in p) <= 6)
    return h


@st.composite
def flat_vertex2(draw):
    """convex pentagon / hexagon with one or two vertices at which two long edges meet at a shallow turn of 2-4
    degrees (far outside the tolerance band, close to a straight angle): (0,0) (a,0) (a+b,h) ... with h = 1/4 or 1/2"""
    a, b = draw(st.sampled_from((3, 4, 5))), draw(st.sampled_from((3, 4)))
    h = draw(st.sampled_from((F(1, 4), F(1, 2))))
    top = draw(st.sampled_from((2, 3)))
    pts = [(F(0), F(0)), (F(a), F(0)), (F(a + b), h), (F(a + b), F(top)), (F(0), F(top))]
    if draw(st.booleans()):
        pts = pts[:4] + [(F(a), F(top) + h)] + pts[4:]  # a second shallow vertex on the top side
    if draw(st.booleans()):
        pts = [(-x, y) for x, y in reversed(pts)]
    cx = (min(x for x, _y in pts) + max(x for x, _y in pts)) / 2
    cx = F(cx.__floor__())
    return [(x - cx, y - 1) for x, y in pts]


@st.composite
def shape2(draw, nmin=3, nmax=8):
    if nmin <= 5 and nmax >= 6 and draw(st.integers(0, 11)) == 0:
        return draw(flat_vertex2())
    if nmax >= 6 and draw(st.integers(0, 5)) == 0:
        return draw(zonogon2(draw(st.integers(max(6, nmin), nmax))))
    mode = draw(st.integers(0, 2))
    if mode == 0:
        k = draw(st.integers(3, 7))
        pts = [(draw(st.integers(-3, 3)), draw(st.integers(-3, 3))) for _ in range(k)]
        h = hull2(pts)
        assume(nmin <= len(h) <= nmax)
        return h
    n = draw(st.integers(nmin, nmax))
    h = list(draw(st.sampled_from(SHAPES2[n])))
    if draw(st.booleans()):
        h = [(-a, b) for a, b in reversed(h)]
    return h


@st.composite
def frame(draw, R=3):
    """(p0, u, v) with integer u, v spanning a plane in arbitrary orientation"""
    p0 = tuple(F(draw(st.integers(-R, R))) for _ in range(3))
    u = draw(direction(2))
    v = draw(direction(2))
    if draw(st.integers(0, 5)) == 0:
        # a plane parallel to one coordinate axis but to no coordinate plane: normal (0, b, c) with b, c != 0
        i = draw(st.integers(0, 2))
        u = tuple(F(1) if j == i else F(0) for j in range(3))
        w = [F(draw(st.sampled_from((1, -1, 2, -2, 3)))), F(draw(st.sampled_from((1, -1, 2, 3, -3))))]
        w.insert(i, F(0))
        v = tuple(w)
        if draw(st.booleans()):
            u, v = v, u
    assume(not X.is_zero(X.cross(u, v)))
    return p0, u, v


def in_frame(fr_, ab):
    p0, u, v = fr_
    return X.add(p0, X.add(X.mul(F(ab[0]), u), X.mul(F(ab[1]), v)))


# vertices whose rounded-float hashes collide in CPython (hash(-1.0) == hash(-2.0)): (-1,a,b) / (-2,a,b) and
# (-1,-2,c) / (-2,-1,c) with a, b, c in {0, 1}, in any assignment of the three axes
def _quirk_points(draw):
    perm = draw(st.sampled_from(list(itertools.permutations(range(3)))))

    def pt(x, a, b):
        q = [F(0)] * 3
        q[perm[0]], q[perm[1]], q[perm[2]] = F(x), F(a), F(b)
        return tuple(q)

    core = [pt(x, a, b) for x in (-1, -2) for a in (0, 1) for b in (0, 1)] + [pt(-1, -2, 0), pt(-2, -1, 0), pt(-1, -2, 1), pt(-2, -1, 1)]
    extra = [pt(0, 0, 0), pt(0, 1, 1), pt(-3, 0, 1), pt(-1, 1, 2), pt(-2, 1, -1), pt(-1, 0, -1), pt(-2, 0, 2), pt(1, 0, 1), pt(-1, 2, 0), pt(-2, 2, 1)]
    return core, extra


def _collides(p, q):
    d = [i for i in range(3) if p[i] != q[i]]
    if len(d) == 1:
        i = d[0]
        return {p[i], q[i]} == {F(-1), F(-2)} and all(p[j] in (0, 1) for j in range(3) if j != i)
    if len(d) == 2:
        i, j = d
        k = 3 - i - j
        return {p[i], p[j]} == {F(-1), F(-2)} and p[i] == q[j] and p[j] == q[i] and p[k] in (0, 1)
    return False


@st.composite
def quirk_polyhedron(draw):
    """a small polyhedron whose vertex set contains at least one pair of distinct lattice points with equal Point hash"""
    core, extra = _quirk_points(draw)
    mode = draw(st.integers(0, 3))
    if mode == 0:  # the unit box x in [-2,-1], possibly taller along the last axis
        hgt = draw(st.sampled_from(((0, 1), (-1, 1), (0, 2), (-1, 2))))
        i = [k for k in range(3) if core[0][k] != core[4][k]][0]
        ax = [k for k in range(3) if k != i]
        pts = []
        for x in (-1, -2):
            for a in (0, 1):
                for b in hgt:
                    q = [F(0)] * 3
                    q[i], q[ax[0]], q[ax[1]] = F(x), F(a), F(b)
                    pts.append(tuple(q))
    else:
        m = draw(st.integers(3, 6))
        pts = list(draw(st.lists(st.sampled_from(core), min_size=m, max_size=m, unique=True)))
        pts += list(draw(st.lists(st.sampled_from(extra), min_size=1, max_size=3, unique=True)))
    K = X.make_K(pts)
    assume(_ok_K(K))
    vs = K[1]
    assume(any(_collides(p, q) for a, p in enumerate(vs) for q in vs[a + 1:]))
    return K


@st.composite
def quirk_polygon(draw):
    """a polygon (axis-parallel or oblique plane) whose vertex set contains a pair of points with equal Point hash"""
    core, extra = _quirk_points(draw)
    for _ in range(4):
        m = draw(st.integers(3, 5))
        pts = list(draw(st.lists(st.sampled_from(core + extra[:4]), min_size=m, max_size=m, unique=True)))
        n = None
        for a in range(len(pts)):
            for b in range(a + 1, len(pts)):
                for c in range(b + 1, len(pts)):
                    w = X.cross(X.sub(pts[b], pts[a]), X.sub(pts[c], pts[a]))
                    if not X.is_zero(w):
                        n = w
                        break
                if n:
                    break
            if n:
                break
        if n is None:
            continue
        coplanar = [q for q in core + extra if X.dot(n, X.sub(q, pts[0])) == 0]
        g = X.make_G(coplanar[:8], n) if len(coplanar) >= 3 else None
        if g is not None and 3 <= len(g[1]) <= 8 and any(_collides(p, q) for a, p in enumerate(g[1]) for q in g[1][a + 1:]):
            return g
    assume(False)


@st.composite
def polygon(draw, nmin=3, nmax=8):
    if nmin <= 4 and nmax >= 6 and draw(st.integers(0, 13)) == 0:
        return draw(quirk_polygon())
    fr_ = draw(frame())
    sh = draw(shape2(nmin, nmax))
    h = draw(st.sampled_from((1, 1, 1, 2)))  # half-lattice scaling
    pts = [in_frame(fr_, (F(a, h), F(b, h))) for a, b in sh]
    return ("G", pts)


# ---------------------------------------------------------------- polyhedra
def _ok_K(K, vmax=10, smax=6):
    if K is None:
        return False
    if not (4 <= len(K[1]) <= vmax):
        return False
    return all(3 <= len(idx) <= smax for _n, _b, idx in K[2])


@st.composite
def polyhedron(draw, family=None):
    fam = family or draw(st.sampled_from(["tetra", "box", "para", "prism", "pyramid", "bipyramid", "hull"] * 2 + ["quirk"]))
    if fam == "quirk":
        return draw(quirk_polyhedron())
    if fam == "tetra":
        pts = [tuple(F(draw(st.integers(-3, 3))) for _ in range(3)) for _ in range(4)]
    elif fam in ("box", "para"):
        p0 = tuple(F(draw(st.integers(-3, 2))) for _ in range(3))
        if fam == "box":
            e = [(F(draw(st.integers(1, 3))), 0, 0), (0, F(draw(st.integers(1, 3))), 0), (0, 0, F(draw(st.integers(1, 3))))]
        else:
            e = [draw(direction(2)) for _ in range(3)]
            assume(X.det3(*e) != 0)
        pts = [X.add(p0, X.add(X.mul(a, e[0]), X.add(X.mul(b, e[1]), X.mul(c, e[2])))) for a in (0, 1) for b in (0, 1) for c in (0, 1)]
    elif fam in ("prism", "pyramid", "bipyramid"):
        fr_ = draw(frame(2))
        sh = draw(shape2(3, 5 if fam == "prism" else 6))
        base = [in_frame(fr_, ab) for ab in sh]
        n = X.cross(fr_[1], fr_[2])
        w = draw(direction(2))
        assume(X.dot(w, n) != 0)
        if fam == "prism":
            pts = base + [X.add(p, w) for p in base]
        else:
            # an interior point of the base with dyadic weights
            c = X.mul(F(1, 4), X.add(X.mul(2, base[0]), X.add(base[1], base[2])))
            pts = base + [X.add(c, w)]
            if fam == "bipyramid":
                pts.append(X.sub(c, X.mul(draw(st.sampled_from((F(1), F(1, 2), F(2)))), w)))
    else:
        k = draw(st.integers(5, 8))
        pts = [tuple(F(draw(st.integers(-3, 3))) for _ in range(3)) for _ in range(k)]
    K = X.make_K(pts)
    assume(_ok_K(K))
    # optional half-lattice translation
    if draw(st.integers(0, 3)) == 0:
        t = tuple(F(draw(st.integers(-2, 2)), 2) for _ in range(3))
        K = X.translate(K, t)
    return K


@st.composite
def body(draw, kind):
    if kind == "G":
        return draw(polygon())
    return draw(polyhedron())


# ---------------------------------------------------------------- feature points of a body
FEATURES = ("V", "E", "E+", "F", "F+", "I", "X")


def face_lists(o):
    if o[0] == "G":
        return [list(o[1])]
    return [[o[1][i] for i in idx] for _n, _b, idx in o[2]]


@st.composite
def feature_point(draw, o, ft):
    """a point of the named feature type of polygon / polyhedron o (dyadic weights only)"""
    pts = o[1]
    if ft == "V":
        return draw(st.sampled_from(pts))
    if ft in ("E", "E+"):
        p, q = draw(st.sampled_from(X.edges_of(o)))
        if draw(st.booleans()):
            p, q = q, p
        t = draw(st.sampled_from((F(1, 2), F(1, 4), F(3, 4)))) if ft == "E" else draw(st.sampled_from((F(3, 2), F(2), F(5, 4))))
        return X.add(p, X.mul(t, X.sub(q, p)))
    if ft in ("F", "F+"):
        f = draw(st.sampled_from(face_lists(o)))
        m = len(f)
        i = draw(st.integers(0, m - 1))
        a, b, c = f[i], f[(i + 1) % m], f[(i + 2) % m]
        w = draw(st.sampled_from(((2, 1, 1), (1, 2, 1), (1, 1, 2))))
        inner = X.mul(F(1, 4), X.add(X.mul(w[0], a), X.add(X.mul(w[1], b), X.mul(w[2], c))))
        if ft == "F":
            return inner
        # reflect the inner point through a vertex of the face, or push it out across an edge
        if draw(st.booleans()):
            return X.add(b, X.mul(draw(st.sampled_from((F(1, 2), F(1)))), X.sub(b, inner)))
        mid = X.mul(F(1, 2), X.add(a, b))
        return X.add(mid, X.mul(draw(st.sampled_from((F(1, 2), F(1), F(1, 4)))), X.sub(mid, inner)))
    if ft == "I":
        if o[0] == "G":
            f = pts
            m = len(f)
            i = draw(st.integers(0, m - 1))
            a, b, c = f[i], f[(i + 1) % m], f[(i + 2) % m]
            return X.mul(F(1, 4), X.add(X.mul(2, a), X.add(b, c)))
        # four affinely independent vertices
        for _ in range(6):
            idx = draw(st.permutations(range(len(pts))))[:4]
            q = [pts[i] for i in idx]
            if X.det3(X.sub(q[1], q[0]), X.sub(q[2], q[0]), X.sub(q[3], q[0])) != 0:
                return X.mul(F(1, 4), X.add(X.add(q[0], q[1]), X.add(q[2], q[3])))
        assume(False)
    if ft == "X":
        return draw(lattice_point(5))
    raise ValueError(ft)


@st.composite
def flat_vs_body(draw, o, kf, f1, f2=None, f3=None):
    """flat of kind kf built through feature points of body o"""
    a = draw(feature_point(o, f1))
    if kf == "P":
        return ("P", a)
    b = draw(feature_point(o, f2))
    assume(tuple(a) != tuple(b))
    if kf == "S":
        return ("S", a, b)
    if kf in ("L", "H"):
        d = X.sub(b, a)
        if kf == "L":
            d = X.mul(draw(st.sampled_from(SCALES)), d)
            a = X.add(a, X.mul(draw(st.sampled_from((F(0), F(1), F(-1, 2)))), d))
        return (kf, a, d)
    if kf == "PL":
        c = draw(feature_point(o, f3))
        n = X.cross(X.sub(b, a), X.sub(c, a))
        assume(not X.is_zero(n))
        return ("PL", draw(st.sampled_from((a, b, c))), X.mul(draw(st.sampled_from((F(1), F(-1), F(2)))), n))
    raise ValueError(kf)


@st.composite
def tangent_in_face(draw, o, kf):
    """1-D flat lying in the plane of a face (or of the polygon) on a supporting line of that face at one of its
    vertices: it touches the face in exactly that vertex, or misses it when its extent stops short of / starts
    beyond the vertex"""
    f = draw(st.sampled_from(face_lists(o)))
    m = len(f)
    i = draw(st.integers(0, m - 1))
    P, V, N = f[i - 1], f[i], f[(i + 1) % m]
    a, b = draw(st.sampled_from(((1, 1), (1, 2), (2, 1), (3, 1))))
    d = X.add(X.mul(F(a), X.sub(V, P)), X.mul(F(b), X.sub(N, V)))  # supporting direction at a strictly convex vertex
    if draw(st.booleans()):
        d = X.mul(F(-1), d)
    k = draw(st.sampled_from((F(1), F(1, 2), F(1, 4))))
    d = X.mul(k, d)
    T = (F(-2), F(-1), F(-1, 2), F(0), F(1, 2), F(1), F(2))
    t0 = draw(st.sampled_from(T))
    if kf == "L":
        return ("L", X.add(V, X.mul(t0, d)), d)
    if kf == "H":
        return ("H", X.add(V, X.mul(t0, d)), d)
    t1 = draw(st.sampled_from(T))
    assume(t0 != t1)
    return ("S", X.add(V, X.mul(t0, d)), X.add(V, X.mul(t1, d)))


@st.composite
def special_plane(draw, o, recipe):
    """planes in special position w.r.t. body o: face / parallel-in / parallel-out / tangent-V / tangent-E"""
    if o[0] == "G":
        n = X.poly_normal(o[1])
        p = o[1][0]
        if recipe == "face":
            return ("PL", draw(st.sampled_from(o[1])), X.mul(draw(st.sampled_from(SCALES)), n))
        if recipe in ("parallel-in", "parallel-out"):
            return ("PL", X.add(p, X.mul(draw(st.sampled_from((F(1), F(-1), F(1, 2), F(-1, 4)))), n)), n)
        if recipe in ("tangent-V", "tangent-E"):
            # plane containing a vertex only / an edge only: normal in the polygon's plane
            m = len(o[1])
            i = draw(st.integers(0, m - 1))
            a, b, c = o[1][i - 1], o[1][i], o[1][(i + 1) % m]
            if recipe == "tangent-E":
                e = X.sub(c, b)
                nn = X.cross(e, n)  # in-plane normal of the edge: plane contains the edge and n
                return ("PL", b, nn)
            # through vertex b, body on one side: in-plane normal = sum of the two adjacent edge normals
            n1 = X.cross(X.sub(b, a), n)
            n2 = X.cross(X.sub(c, b), n)
            nn = X.add(X.mul(draw(st.sampled_from((1, 2))), n1), X.mul(draw(st.sampled_from((1, 2))), n2))
            return ("PL", b, nn)
    else:
        faces = o[2]
        fi = draw(st.integers(0, len(faces) - 1))
        n, b_, idx = faces[fi]
        n = tuple(F(x) for x in n)
        p = o[1][idx[0]]
        if recipe == "face":
            return ("PL", o[1][draw(st.sampled_from(idx))], X.mul(draw(st.sampled_from(SCALES)), n))
        nn = F(X.dot(n, n))
        if recipe == "parallel-out":
            return ("PL", X.add(p, X.mul(draw(st.sampled_from((F(1), F(1, 2), F(1, 4)))) / nn, n)), n)
        if recipe == "parallel-in":
            return ("PL", X.sub(p, X.mul(draw(st.sampled_from((F(1, 2), F(1, 4), F(1, 8)))) / 1, X.mul(1 / nn, n))), n)
        if recipe == "tangent-E":
            # an edge and its two faces: normal = positive combination of the two face normals
            es = {}
            for k, (n_, _b, idx_) in enumerate(faces):
                m = len(idx_)
                for j in range(m):
                    e = (min(idx_[j], idx_[(j + 1) % m]), max(idx_[j], idx_[(j + 1) % m]))
                    es.setdefault(e, []).append(k)
            e = draw(st.sampled_from(sorted(es)))
            k1, k2 = es[e][:2]
            w1, w2 = draw(st.sampled_from(((1, 1), (1, 2), (2, 1), (3, 1))))
            nn2 = X.add(X.mul(w1, faces[k1][0]), X.mul(w2, faces[k2][0]))
            return ("PL", o[1][e[0]], tuple(F(x) for x in nn2))
        if recipe in ("cap-V", "tangent-far-V"):
            # the vertex farthest from the vertex centroid (for bodies without central symmetry it is farther away than
            # half the diameter): a plane cutting a small cap off it, or touching it
            c = X.centroid(o[1])
            d2 = [X.dot(X.sub(q, c), X.sub(q, c)) for q in o[1]]
            order = sorted(range(len(o[1])), key=lambda t: -d2[t])
            vi = order[draw(st.sampled_from((0, 0, 0, 1)))]
            adj = [f for f in faces if vi in f[2]]
            nn2 = (0, 0, 0)
            for f in adj:
                nn2 = X.add(nn2, f[0])
            assume(not X.is_zero(nn2))
            nn2 = tuple(F(x) for x in nn2)
            if vi == order[0] and draw(st.booleans()):
                # the supporting plane perpendicular to (vertex - centroid): as far from the centroid as a plane
                # meeting the body can be
                nn2 = X.sub(o[1][vi], c)
            if recipe == "tangent-far-V":
                return ("PL", o[1][vi], nn2)
            # through a point a quarter / an eighth of the way along an edge at that vertex, same normal: a small cap
            nb = [q for (a_, b_) in X.edges_of(o) for q in ((b_,) if tuple(a_) == tuple(o[1][vi]) else (a_,) if tuple(b_) == tuple(o[1][vi]) else ())]
            q = draw(st.sampled_from(nb))
            t = draw(st.sampled_from((F(1, 4), F(1, 8), F(1, 2))))
            return ("PL", X.add(o[1][vi], X.mul(t, X.sub(q, o[1][vi]))), nn2)
        if recipe == "tangent-V":
            vi = draw(st.integers(0, len(o[1]) - 1))
            adj = [f for f in faces if vi in f[2]]
            ws = [draw(st.sampled_from((1, 1, 2, 3))) for _ in adj]
            nn2 = (0, 0, 0)
            for w, f in zip(ws, adj):
                nn2 = X.add(nn2, X.mul(w, f[0]))
            assume(not X.is_zero(nn2))
            return ("PL", o[1][vi], tuple(F(x) for x in nn2))
    raise ValueError(recipe)


# ---------------------------------------------------------------- related bodies
@st.composite
def polygon_in_plane_of(draw, G, recipe):
    """second polygon coplanar with polygon G"""
    pts = G[1]
    n = X.poly_normal(pts)
    m = len(pts)
    if recipe == "equal":
        k = draw(st.integers(0, m - 1))
        q = pts[k:] + pts[:k]
        if draw(st.booleans()):
            q = list(reversed(q))
        return ("G", q)
    if recipe in ("share-edge-full", "share-edge-part", "share-vertex"):
        i = draw(st.integers(0, m - 1))
        a, b = pts[i], pts[(i + 1) % m]
        out = X.cross(X.sub(b, a), n)  # outward in-plane normal of edge (a,b)
        outp = moderate(X.primitive(out))
        e = X.sub(b, a)
        k = draw(st.sampled_from((F(1), F(1, 2), F(2))))
        s = draw(st.sampled_from((F(0), F(1, 2), F(1), F(-1, 2))))
        apex = X.add(X.add(a, X.mul(s, e)), X.mul(k, outp))
        if recipe == "share-edge-full":
            return X.make_G([a, b, apex], n)
        if recipe == "share-edge-part":
            t0, t1 = draw(st.sampled_from(((F(0), F(1, 2)), (F(1, 4), F(3, 4)), (F(1, 2), F(3, 2)), (F(-1, 2), F(1, 2)), (F(-1), F(2)))))
            return X.make_G([X.add(a, X.mul(t0, e)), X.add(a, X.mul(t1, e)), apex], n)
        # share-vertex: triangle touching at a only
        return X.make_G([a, X.add(a, X.add(X.mul(k, outp), X.mul(F(1, 2), e))), X.add(a, X.sub(X.mul(k, outp), e))], n)
    if recipe in ("translated", "nested", "overlap", "disjoint"):
        # a copy / another shape in the same plane, moved by in-plane lattice vectors
        u = X.sub(pts[1], pts[0])
        v = X.sub(pts[-1], pts[0])
        if recipe == "nested":
            c = X.mul(F(1, 4), X.add(X.mul(2, pts[0]), X.add(pts[1], pts[2])))
            return ("G", [X.add(c, X.mul(F(1, 2), X.sub(p, c))) for p in pts])
        if recipe == "translated":
            i, j = draw(st.integers(0, m - 1)), draw(st.integers(0, m - 1))
            t = X.mul(draw(st.sampled_from((F(1), F(1, 2)))), X.sub(pts[i], pts[j]))
            assume(not X.is_zero(t))
            return ("G", [X.add(p, t) for p in pts])
        a, b = (draw(st.integers(-2, 2)), draw(st.integers(-2, 2)))
        h = draw(st.sampled_from((1, 2)))
        t = X.add(X.mul(F(a, h), u), X.mul(F(b, h), v))
        if recipe == "disjoint":
            t = X.add(X.mul(F(3), u), X.mul(F(3 if draw(st.booleans()) else 0), v))
        sh = draw(shape2(3, 6))
        base = pts[0]
        q = [X.add(X.add(base, t), X.add(X.mul(F(x, 2), u), X.mul(F(y, 2), v))) for x, y in sh]
        return X.make_G(q, n)
    raise ValueError(recipe)


@st.composite
def polygon_crossing(draw, G, recipe):
    """second polygon in a plane crossing the plane of G along a chosen line"""
    pts = G[1]
    n = X.poly_normal(pts)
    f1 = draw(feature_point(G, draw(st.sampled_from(("V", "E", "I", "F+")))))
    f2 = draw(feature_point(G, draw(st.sampled_from(("V", "E", "I", "F+")))))
    assume(tuple(f1) != tuple(f2))
    d = X.sub(f2, f1)
    w = draw(direction(2))
    assume(X.dot(w, n) != 0)
    s0, s1 = draw(st.sampled_from(((F(0), F(1)), (F(-1), F(2)), (F(1, 4), F(3, 4)), (F(1), F(2)), (F(1, 2), F(3, 2)), (F(2), F(3)), (F(-2), F(-1)), (F(-1), F(0)))))
    a, b = X.add(f1, X.mul(s0, d)), X.add(f1, X.mul(s1, d))
    if recipe == "through":
        k = draw(st.sampled_from((F(1), F(1, 2), F(2))))
        q = [X.sub(a, X.mul(k, w)), X.sub(b, X.mul(k, w)), X.add(b, w), X.add(a, w)]
        nn = X.cross(d, w)
        return X.make_G(q, nn)
    if recipe == "edge-on-plane":
        return X.make_G([a, b, X.add(X.add(a, w), X.mul(draw(st.sampled_from((F(0), F(1, 2), F(1)))), X.sub(b, a)))], X.cross(d, w))
    if recipe == "vertex-touch":
        return X.make_G([a, X.add(X.add(a, w), d), X.add(X.add(a, w), X.mul(F(-1), d))], X.cross(d, w))
    if recipe == "parallel-plane":
        t = X.mul(draw(st.sampled_from((F(1), F(-1), F(1, 2)))), w)
        return ("G", [X.add(p, t) for p in pts])
    raise ValueError(recipe)


@st.composite
def polygon_vs_polyhedron(draw, K, recipe):
    faces = face_lists(K)
    if recipe in ("face", "face-shifted", "face-bigger", "face-smaller"):
        f = draw(st.sampled_from(faces))
        m = len(f)
        if recipe == "face":
            k = draw(st.integers(0, m - 1))
            return ("G", f[k:] + f[:k])
        if recipe == "face-shifted":
            i = draw(st.integers(0, m - 1))
            t = X.mul(draw(st.sampled_from((F(1), F(1, 2), F(-1, 2), F(1, 4)))), X.sub(f[(i + 1) % m], f[i]))
            return ("G", [X.add(p, t) for p in f])
        c = X.mul(F(1, 4), X.add(X.mul(2, f[0]), X.add(f[1], f[2])))
        k = F(2) if recipe == "face-bigger" else F(1, 2)
        return ("G", [X.add(c, X.mul(k, X.sub(p, c))) for p in f])
    if recipe in ("section-big", "section-small", "section-partial"):
        fts = draw(st.sampled_from((("V", "V", "V"), ("E", "E", "E"), ("V", "E", "I"), ("I", "X", "X"), ("V", "V", "I"), ("E", "V", "X"))))
        a = draw(feature_point(K, fts[0]))
        b = draw(feature_point(K, fts[1]))
        c = draw(feature_point(K, fts[2]))
        u, v = X.sub(b, a), X.sub(c, a)
        assume(not X.is_zero(X.cross(u, v)))
        sh = draw(shape2(3, 6))
        if recipe == "section-big":
            q = [X.add(a, X.add(X.mul(F(4 * x - 4), u), X.mul(F(4 * y - 4), v))) for x, y in sh]
            # make sure it is big: scale shape about a by 4 after centring roughly
        elif recipe == "section-small":
            q = [X.add(a, X.add(X.mul(F(x, 8), u), X.mul(F(y, 8), v))) for x, y in sh]
        else:
            q = [X.add(a, X.add(X.mul(F(x, 2), u), X.mul(F(y, 2), v))) for x, y in sh]
        return X.make_G(q, X.cross(u, v))
    if recipe in ("touch-V", "touch-E"):
        if recipe == "touch-V":
            vi = draw(st.integers(0, len(K[1]) - 1))
            p = K[1][vi]
            adj = [f for f in K[2] if vi in f[2]]
        else:
            e = draw(st.sampled_from(X.edges_of(K)))
            p = X.mul(F(1, 2), X.add(e[0], e[1]))
            i0, i1 = K[1].index(e[0]), K[1].index(e[1])
            adj = [f for f in K[2] if i0 in f[2] and i1 in f[2]]
        out = (0, 0, 0)
        for f in adj:
            out = X.add(out, f[0])
        out = moderate(X.primitive(out))
        w1 = draw(direction(2))
        w2 = draw(direction(2))
        q = [p, X.add(X.add(p, out), X.mul(F(1, 2), w1)), X.add(X.add(p, X.mul(2, out)), X.mul(F(1, 2), w2))]
        assume(not X.is_zero(X.cross(X.sub(q[1], q[0]), X.sub(q[2], q[0]))))
        return ("G", q)
    if recipe == "inside":
        a = draw(feature_point(K, "I"))
        b = draw(feature_point(K, draw(st.sampled_from(("I", "F", "E", "V")))))
        c = draw(feature_point(K, draw(st.sampled_from(("I", "F", "V")))))
        assume(not X.is_zero(X.cross(X.sub(b, a), X.sub(c, a))))
        return ("G", [a, b, c])
    if recipe == "free":
        return draw(polygon())
    raise ValueError(recipe)


@st.composite
def polyhedron_vs_polyhedron(draw, K, recipe):
    pts = K[1]
    if recipe == "equal":
        return K
    if recipe in ("translate-vertex", "translate-half"):
        i = draw(st.integers(0, len(pts) - 1))
        j = draw(st.integers(0, len(pts) - 1))
        assume(i != j)
        t = X.sub(pts[i], pts[j])
        if recipe == "translate-half":
            t = X.mul(draw(st.sampled_from((F(1, 2), F(1, 4), F(3, 4)))), t)
        return X.translate(K, t)
    if recipe in ("glue-face", "glue-face-part"):
        n, b, idx = draw(st.sampled_from(K[2]))
        f = [pts[i] for i in idx]
        nv = moderate(n)
        c = X.mul(F(1, 4), X.add(X.mul(2, f[0]), X.add(f[1], f[2])))
        apex = X.add(
            X.add(c, X.mul(draw(st.sampled_from((F(1), F(1, 2)))), nv)),
            X.mul(draw(st.sampled_from((F(0), F(1, 2)))), X.sub(f[1], f[0])),
        )
        if recipe == "glue-face":
            base = f
        else:
            base = [f[0], X.mul(F(1, 2), X.add(f[0], f[1])), c]
        K2 = X.make_K(base + [apex])
        assume(_ok_K(K2))
        return K2
    if recipe == "glue-face-overlap":
        # a second body sitting on the outside of one face plane of K whose base polygon only partly overlaps that
        # face (another shape, shifted within the plane): the intersection is the 2-D overlap of the two coplanar
        # polygons, found from both bodies' faces, with crossing points that are not lattice points
        # prefer a face plane parallel to exactly one coordinate axis (normal with exactly one zero component), where
        # a mathematically zero normal component of a computed polygon carries float noise of either sign
        one_zero = [fc for fc in K[2] if sum(1 for c in fc[0] if c == 0) == 1]
        if one_zero and draw(st.integers(0, 2)) > 0:
            n, b, idx = draw(st.sampled_from(one_zero))
        else:
            n, b, idx = draw(st.sampled_from(K[2]))
        f = [pts[i] for i in idx]
        g2 = draw(polygon_in_plane_of(("G", f), draw(st.sampled_from(("overlap", "overlap", "translated")))))
        assume(g2 is not None and len(g2[1]) >= 3)
        nv = moderate(n)
        c = X.mul(F(1, 4), X.add(X.mul(2, g2[1][0]), X.add(g2[1][1], g2[1][2])))
        apex = X.add(c, X.mul(draw(st.sampled_from((F(1), F(1, 2), F(2)))), nv))
        if draw(st.booleans()):
            K2 = X.make_K(list(g2[1]) + [apex])
        else:
            K2 = X.make_K(list(g2[1]) + [X.add(q_, X.mul(F(1), nv)) for q_ in g2[1]])
        assume(_ok_K(K2))
        return K2
    if recipe == "share-edge":
        p, q = draw(st.sampled_from(X.edges_of(K)))
        i0, i1 = pts.index(p), pts.index(q)
        adj = [f for f in K[2] if i0 in f[2] and i1 in f[2]]
        out = (0, 0, 0)
        for f in adj:
            out = X.add(out, f[0])
        out = moderate(X.primitive(out))
        w = X.cross(X.sub(q, p), out)
        w = moderate(X.primitive(w))
        K2 = X.make_K([p, q, X.add(X.add(p, out), w), X.add(X.sub(p, w), out)])
        assume(_ok_K(K2))
        return K2
    if recipe == "share-vertex":
        K2 = draw(polyhedron())
        i = draw(st.integers(0, len(pts) - 1))
        j = draw(st.integers(0, len(K2[1]) - 1))
        return X.translate(K2, X.sub(pts[i], K2[1][j]))
    if recipe == "nested":
        c = draw(feature_point(K, "I"))
        K2 = X.make_K([X.add(c, X.mul(F(1, 2), X.sub(p, c))) for p in pts])
        assume(_ok_K(K2))
        return K2
    if recipe == "inscribed":
        # a body spanned by points of K's boundary (vertices, edge and face points) and possibly interior points:
        # it lies inside K and touches K's boundary from the inside at vertices, along edges or in faces
        m = draw(st.integers(4, 6))
        kinds = [draw(st.sampled_from(("V", "E", "F", "F", "I"))) for _ in range(m)]
        kinds[0] = draw(st.sampled_from(("V", "E", "F")))
        q = []
        for ft in kinds:
            x = draw(feature_point(K, ft))
            if tuple(x) not in [tuple(y) for y in q]:
                q.append(x)
        assume(len(q) >= 4)
        K2 = X.make_K(q)
        assume(_ok_K(K2))
        return K2
    if recipe == "independent":
        return draw(polyhedron())
    raise ValueError(recipe)


# ---------------------------------------------------------------- rational rotations
QUATS = [q for q in itertools.product(range(-2, 3), repeat=4) if sum(1 for c in q if c) >= 2 and sum(c * c for c in q) in (2, 3, 5, 6, 7, 9, 10)]


def rotation(q):
    a, b, c, d = q
    N = F(a * a + b * b + c * c + d * d)
    M = (
        (F(a * a + b * b - c * c - d * d) / N, F(2 * (b * c - a * d)) / N, F(2 * (b * d + a * c)) / N),
        (F(2 * (b * c + a * d)) / N, F(a * a - b * b + c * c - d * d) / N, F(2 * (c * d - a * b)) / N),
        (F(2 * (b * d - a * c)) / N, F(2 * (c * d + a * b)) / N, F(a * a - b * b - c * c + d * d) / N),
    )
    return lambda p: tuple(M[i][0] * p[0] + M[i][1] * p[1] + M[i][2] * p[2] for i in range(3))
