"""Exact rational kernel: the reference model for the geometric properties.

Descriptors are plain tuples whose coordinates are fractions.Fraction (ints accepted):

  ('P', p)            point
  ('L', p, d)         line through p with direction d
  ('H', p, d)         half-line from p in direction d
  ('S', p, q)         segment
  ('PL', p, n)        plane through p with normal n
  ('G', [p0..pk])     convex polygon, vertices in cyclic order
  ('K', pts, faces)   convex polyhedron; faces = [(n, b, [vertex ids in cyclic order])],
                      n outward, n.x <= b

Everything here is exact; floats appear only in the *measure* helpers (square roots).
"""
from fractions import Fraction as F
from functools import cmp_to_key
import itertools
import math

FLAT = ("P", "L", "H", "S", "PL")


# ---------------------------------------------------------------- vectors
def add(a, b):
    return (a[0] + b[0], a[1] + b[1], a[2] + b[2])


def sub(a, b):
    return (a[0] - b[0], a[1] - b[1], a[2] - b[2])


def mul(k, a):
    return (k * a[0], k * a[1], k * a[2])


def dot(a, b):
    return a[0] * b[0] + a[1] * b[1] + a[2] * b[2]


def cross(a, b):
    return (
        a[1] * b[2] - a[2] * b[1],
        a[2] * b[0] - a[0] * b[2],
        a[0] * b[1] - a[1] * b[0],
    )


def det3(a, b, c):
    return dot(a, cross(b, c))


def is_zero(v):
    return v[0] == 0 and v[1] == 0 and v[2] == 0


def fr(p):
    return tuple(F(x) for x in p)


def fl(p):
    return tuple(float(x) for x in p)


def perp2(d):
    """two independent exact vectors orthogonal to d"""
    out = []
    for c in ((1, 0, 0), (0, 1, 0), (0, 0, 1)):
        v = cross(d, c)
        if not is_zero(v):
            if not out:
                out.append(v)
            elif not is_zero(cross(out[0], v)):
                out.append(v)
                break
    return out


def _lcm(a, b):
    return a * b // math.gcd(a, b)


def int_row(a, b):
    """scale the constraint a.x (rel) b by a positive factor to integers, primitive"""
    den = 1
    for x in (a[0], a[1], a[2], b):
        den = _lcm(den, F(x).denominator)
    ai = tuple(int(F(x) * den) for x in a)
    bi = int(F(b) * den)
    g = math.gcd(math.gcd(abs(ai[0]), abs(ai[1])), math.gcd(abs(ai[2]), abs(bi)))
    if g > 1:
        ai = tuple(x // g for x in ai)
        bi //= g
    return ai, bi


def primitive(v):
    """integer primitive vector positively proportional to v"""
    a, _ = int_row(v, 0)
    return a


# ---------------------------------------------------------------- H representation
def poly_normal(pts):
    """normal of a convex polygon in cyclic order (first non-degenerate consecutive triple)"""
    m = len(pts)
    for i in range(m):
        n = cross(sub(pts[(i + 1) % m], pts[i]), sub(pts[(i + 2) % m], pts[i]))
        if not is_zero(n):
            return n
    raise ValueError("degenerate polygon")


def hrep(o):
    """list of (a, b, kind) with integer a, b: a.x == b ('=') or a.x <= b ('<')"""
    k = o[0]
    rows = []
    if k == "P":
        p = o[1]
        rows = [((1, 0, 0), p[0], "="), ((0, 1, 0), p[1], "="), ((0, 0, 1), p[2], "=")]
    elif k in ("L", "H", "S"):
        p = o[1]
        d = o[2] if k != "S" else sub(o[2], o[1])
        u, v = perp2(d)
        rows = [(u, dot(u, p), "="), (v, dot(v, p), "=")]
        if k in ("H", "S"):
            rows.append((mul(-1, d), -dot(d, p), "<"))
        if k == "S":
            rows.append((d, dot(d, o[2]), "<"))
    elif k == "PL":
        rows = [(o[2], dot(o[2], o[1]), "=")]
    elif k == "G":
        pts = o[1]
        n = poly_normal(pts)
        rows = [(n, dot(n, pts[0]), "=")]
        m = len(pts)
        for i in range(m):
            e = sub(pts[(i + 1) % m], pts[i])
            out = cross(e, n)
            rows.append((out, dot(out, pts[i]), "<"))
    elif k == "K":
        rows = [(n, b, "<") for (n, b, _idx) in o[2]]
    else:
        raise ValueError(k)
    res = []
    for a, b, kind in rows:
        ai, bi = int_row(a, b)
        res.append((ai, bi, kind))
    return res


def _solve3i(r1, r2, r3):
    """Cramer over the integers: returns (X, Y, Z, D) with point = (X/D, Y/D, Z/D), or None"""
    (a1, b1), (a2, b2), (a3, b3) = r1, r2, r3
    D = det3(a1, a2, a3)
    if D == 0:
        return None
    X = det3((b1, a1[1], a1[2]), (b2, a2[1], a2[2]), (b3, a3[1], a3[2]))
    Y = det3((a1[0], b1, a1[2]), (a2[0], b2, a2[2]), (a3[0], b3, a3[2]))
    Z = det3((a1[0], a1[1], b1), (a2[0], a2[1], b2), (a3[0], a3[1], b3))
    if D < 0:
        X, Y, Z, D = -X, -Y, -Z, -D
    return X, Y, Z, D


def vertices(H):
    """exact vertex set of a bounded H-representation (every triple of constraint planes)"""
    rows = [(a, b) for a, b, _ in H]
    kinds = [k for _, _, k in H]
    eq_idx = [i for i, k in enumerate(kinds) if k == "="]
    vs = set()
    n = len(rows)
    for i, j, k in itertools.combinations(range(n), 3):
        s = _solve3i(rows[i], rows[j], rows[k])
        if s is None:
            continue
        X, Y, Z, D = s
        ok = True
        for (a, b), kd in zip(rows, kinds):
            v = a[0] * X + a[1] * Y + a[2] * Z - b * D
            if v > 0 or (kd == "=" and v != 0):
                ok = False
                break
        if ok:
            vs.add((F(X, D), F(Y, D), F(Z, D)))
    return vs


def feasible(p, H):
    for a, b, k in H:
        v = dot(a, p) - b
        if k == "=" and v != 0:
            return False
        if k == "<" and v > 0:
            return False
    return True


def contains(o, p):
    """exact membership of point p in the set denoted by o"""
    return feasible(p, hrep(o))


def min_margin(p, H):
    """smallest non-zero normalised |a.p - b|/|a| over the constraints (None if all tight)"""
    best = None
    for a, b, _k in H:
        v = dot(a, p) - b
        if v != 0:
            m = abs(float(v)) / math.sqrt(float(dot(a, a)))
            if best is None or m < best:
                best = m
    return best


# ---------------------------------------------------------------- point sets -> descriptors
def affine_dim(vs):
    vs = list(vs)
    if not vs:
        return -1
    if len(vs) == 1:
        return 0
    base = vs[0]
    ds = [sub(v, base) for v in vs[1:]]
    d0 = next((d for d in ds if not is_zero(d)), None)
    if d0 is None:
        return 0
    n = None
    for d in ds:
        c = cross(d0, d)
        if not is_zero(c):
            n = c
            break
    if n is None:
        return 1
    for d in ds:
        if dot(n, d) != 0:
            return 3
    return 2


def cyclic_order(pts, n):
    """order coplanar points in convex position counter-clockwise about n (exact)"""
    m = len(pts)
    c = tuple(sum(p[k] for p in pts) / F(m) for k in range(3))
    vs = [sub(p, c) for p in pts]
    ref = vs[0]

    def half(v):
        cr = dot(cross(ref, v), n)
        dt = dot(ref, v)
        if cr > 0 or (cr == 0 and dt > 0):
            return 0
        return 1

    def cmp(i, j):
        hi, hj = half(vs[i]), half(vs[j])
        if hi != hj:
            return -1 if hi < hj else 1
        cr = dot(cross(vs[i], vs[j]), n)
        if cr > 0:
            return -1
        if cr < 0:
            return 1
        return 0

    idx = sorted(range(m), key=cmp_to_key(cmp))
    return [pts[i] for i in idx], idx


def extreme_points_2d(pts, n):
    """drop points that are not strict vertices of the planar hull"""
    pts = list(dict.fromkeys(pts))
    out = []
    for i, p in enumerate(pts):
        others = [q for j, q in enumerate(pts) if j != i]
        # p is a strict vertex iff there is a direction in the plane in which it is the unique max;
        # equivalently p is not in the hull of the others.  Brute force over supporting lines.
        is_v = False
        if len(others) < 2:
            is_v = True
        else:
            # p not in conv(others): exists line through p with all others strictly on one side
            # or p outside: test every edge candidate of others plus pairs with p
            for q in others:
                e = sub(q, p)
                if is_zero(e):
                    continue
                side = cross(e, n)
                ss = [dot(side, sub(r, p)) for r in others]
                if all(s <= 0 for s in ss) or all(s >= 0 for s in ss):
                    # q and others lie on one closed side of the line p-q; p is a vertex unless it
                    # lies strictly between two collinear others
                    col = [r for r, s in zip(others, ss) if s == 0]
                    ts = [dot(sub(r, p), e) for r in col]
                    if all(t >= 0 for t in ts) or all(t <= 0 for t in ts):
                        is_v = True
                        break
        if is_v:
            out.append(p)
    return out


def hull_faces(pts):
    """brute-force hull of a full-dimensional point set.
    returns list of (n_int, b_int, sorted vertex ids on the face) with outward primitive normals"""
    pts = list(pts)
    faces = {}
    for i, j, k in itertools.combinations(range(len(pts)), 3):
        n = cross(sub(pts[j], pts[i]), sub(pts[k], pts[i]))
        if is_zero(n):
            continue
        b = dot(n, pts[i])
        s = [dot(n, p) - b for p in pts]
        if all(x <= 0 for x in s):
            pass
        elif all(x >= 0 for x in s):
            n = mul(-1, n)
            b = -b
            s = [-x for x in s]
        else:
            continue
        ni, bi = int_row(n, b)
        key = ni + (bi,)
        faces.setdefault(key, set()).update(i2 for i2, x in enumerate(s) if x == 0)
    return [(k[:3], k[3], sorted(v)) for k, v in faces.items()]


def make_K(points):
    """polyhedron descriptor from a point set (hull; non-extreme points dropped). None if flat."""
    pts = list(dict.fromkeys(fr(p) for p in points))
    if affine_dim(pts) < 3:
        return None
    fs = hull_faces(pts)
    # extreme points: a vertex is the unique intersection of >= 3 face planes and a strict vertex of
    # each face polygon
    keep = set()
    for n, b, idx in fs:
        fp = [pts[i] for i in idx]
        ex = extreme_points_2d(fp, n)
        for p in ex:
            keep.add(p)
    vlist = [p for p in pts if p in keep]
    vid = {p: i for i, p in enumerate(vlist)}
    faces = []
    for n, b, idx in fs:
        fp = [pts[i] for i in idx if pts[i] in keep]
        ordered, _ = cyclic_order(fp, n)
        faces.append((n, b, [vid[p] for p in ordered]))
    faces.sort()
    return ("K", vlist, faces)


def make_G(points, n=None):
    pts = list(dict.fromkeys(fr(p) for p in points))
    if n is None:
        base = pts[0]
        d0 = None
        for p in pts[1:]:
            d = sub(p, base)
            if d0 is None:
                if not is_zero(d):
                    d0 = d
            else:
                c = cross(d0, d)
                if not is_zero(c):
                    n = c
                    break
    ex = extreme_points_2d(pts, n)
    ordered, _ = cyclic_order(ex, n)
    return ("G", ordered)


def set_from_vertices(vs):
    """canonical descriptor of the convex hull of a finite exact point set"""
    vs = list(vs)
    d = affine_dim(vs)
    if d < 0:
        return None
    if d == 0:
        return ("P", vs[0])
    if d == 1:
        base = vs[0]
        dv = next(sub(v, base) for v in vs[1:] if not is_zero(sub(v, base)))
        ts = sorted(vs, key=lambda v: dot(sub(v, base), dv))
        return ("S", ts[0], ts[-1])
    if d == 2:
        return make_G(vs)
    return make_K(vs)


def verts_of(o):
    """defining vertex list of a bounded descriptor"""
    k = o[0]
    if k == "P":
        return [o[1]]
    if k == "S":
        return [o[1], o[2]]
    if k == "G":
        return list(o[1])
    if k == "K":
        return list(o[1])
    raise ValueError(k)


def edges_of(o):
    """list of (p, q) edges of a bounded descriptor"""
    k = o[0]
    if k == "S":
        return [(o[1], o[2])]
    if k == "G":
        m = len(o[1])
        return [(o[1][i], o[1][(i + 1) % m]) for i in range(m)]
    if k == "K":
        es = {}
        for _n, _b, idx in o[2]:
            m = len(idx)
            for i in range(m):
                a, b = idx[i], idx[(i + 1) % m]
                es[(min(a, b), max(a, b))] = 1
        return [(o[1][a], o[1][b]) for a, b in sorted(es)]
    return []


def euler(o):
    V = len(o[1])
    E = len(edges_of(o))
    Fc = len(o[2])
    return V, E, Fc


# ---------------------------------------------------------------- flat / flat intersection
def _line_of(o):
    if o[0] == "S":
        return o[1], sub(o[2], o[1]), (F(0), F(1))
    if o[0] == "H":
        return o[1], o[2], (F(0), None)
    if o[0] == "L":
        return o[1], o[2], (None, None)
    raise ValueError(o[0])


def on_line(p, q, d):
    return is_zero(cross(sub(p, q), d))


def solve3(rows):
    s = _solve3i(*[int_row(a, b) for a, b in rows])
    if s is None:
        return None
    X, Y, Z, D = s
    return (F(X, D), F(Y, D), F(Z, D))


def inter_flat(a, b):
    """exact intersection of two of P/L/H/S/PL.
    returns None | ('P',p) | ('S',p,q) | ('H',p,d) | ('L',p,d) | ('PL',p,n)"""
    ka, kb = a[0], b[0]
    rank = {"P": 0, "S": 1, "H": 1, "L": 1, "PL": 2}
    if rank[ka] > rank[kb]:
        a, b = b, a
        ka, kb = kb, ka
    if ka == "P":
        p = a[1]
        if kb == "P":
            return a if tuple(p) == tuple(b[1]) else None
        if kb == "PL":
            return a if dot(b[2], sub(p, b[1])) == 0 else None
        q, d, (lo, hi) = _line_of(b)
        if not on_line(p, q, d):
            return None
        t = F(dot(sub(p, q), d)) / F(dot(d, d))
        if (lo is not None and t < lo) or (hi is not None and t > hi):
            return None
        return a
    if ka == "PL":
        n1, n2 = a[2], b[2]
        if is_zero(cross(n1, n2)):
            return a if dot(n1, sub(b[1], a[1])) == 0 else None
        d = cross(n1, n2)
        p = solve3([(n1, dot(n1, a[1])), (n2, dot(n2, b[1])), (d, 0)])
        return ("L", p, d)
    q, d, (lo, hi) = _line_of(a)
    if kb == "PL":
        n = b[2]
        den = dot(n, d)
        num = dot(n, sub(b[1], q))
        if den == 0:
            if num != 0:
                return None
            tlo, thi = None, None
        else:
            t = F(num) / F(den)
            tlo = thi = t
    else:
        q2, d2, (lo2, hi2) = _line_of(b)
        if is_zero(cross(d, d2)):
            if not on_line(q2, q, d):
                return None
            t0 = F(dot(sub(q2, q), d)) / F(dot(d, d))
            s = F(dot(d2, d)) / F(dot(d, d))
            ends = [
                (None if lo2 is None else t0 + s * lo2),
                (None if hi2 is None else t0 + s * hi2),
            ]
            if s > 0:
                tlo, thi = ends
            else:
                tlo, thi = ends[1], ends[0]
        else:
            w = sub(q2, q)
            n = cross(d, d2)
            if dot(w, n) != 0:
                return None
            nn = F(dot(n, n))
            t = F(dot(cross(w, d2), n)) / nn
            s = F(dot(cross(w, d), n)) / nn
            if (lo2 is not None and s < lo2) or (hi2 is not None and s > hi2):
                return None
            tlo = thi = t
    L = lo if tlo is None else (tlo if lo is None else max(lo, tlo))
    Hh = hi if thi is None else (thi if hi is None else min(hi, thi))
    if L is not None and Hh is not None:
        if L > Hh:
            return None
        if L == Hh:
            return ("P", add(q, mul(L, d)))
        return ("S", add(q, mul(L, d)), add(q, mul(Hh, d)))
    if L is None and Hh is None:
        return ("L", q, d)
    if L is not None:
        return ("H", add(q, mul(L, d)), d)
    return ("H", add(q, mul(Hh, d)), mul(-1, d))


def inter(a, b):
    """exact intersection of any two descriptors, as a canonical descriptor (or None)"""
    if a is None or b is None:
        return None
    if a[0] in FLAT and b[0] in FLAT:
        return inter_flat(a, b)
    return set_from_vertices(vertices(hrep(a) + hrep(b)))


def bbox_clip(o, R=64):
    """H-rows of a big box, to bound an unbounded flat for cross-checking"""
    rows = []
    for i in range(3):
        e = [0, 0, 0]
        e[i] = 1
        rows.append((tuple(e), R, "<"))
        e2 = [0, 0, 0]
        e2[i] = -1
        rows.append((tuple(e2), R, "<"))
    return rows


# ---------------------------------------------------------------- subset (for C05 composite, C12)
def subset(a, b):
    """exact a ⊆ b for a in P/S/H/L/G/K(bounded via vertices) and any b"""
    Hb = hrep(b)
    k = a[0]
    if k in ("P", "S", "G", "K"):
        return all(feasible(p, Hb) for p in verts_of(a))
    if k in ("H", "L"):
        p, d = a[1], a[2]
        if not feasible(p, Hb):
            return False
        for row, bb, kind in Hb:
            v = dot(row, d)
            if kind == "=" and v != 0:
                return False
            if kind == "<":
                if k == "L" and v != 0:
                    return False
                if k == "H" and v > 0:
                    return False
        return True
    if k == "PL":
        if b[0] != "PL":
            return False
        return is_zero(cross(a[2], b[2])) and dot(b[2], sub(a[1], b[1])) == 0
    raise ValueError(k)


# ---------------------------------------------------------------- measures
def seg_len(p, q):
    d = sub(q, p)
    return math.sqrt(float(dot(d, d)))


def perimeter(o):
    return sum(seg_len(p, q) for p, q in edges_of(o))


def polygon_area2(pts):
    """exact squared area of a planar polygon in cyclic order"""
    s = (F(0), F(0), F(0))
    m = len(pts)
    for i in range(m):
        s = add(s, cross(pts[i], pts[(i + 1) % m]))
    return dot(s, s) / 4


def polygon_area(pts):
    return math.sqrt(float(polygon_area2(pts)))


def surface_area(o):
    if o[0] == "G":
        return polygon_area(o[1])
    tot = 0.0
    for _n, _b, idx in o[2]:
        tot += polygon_area([o[1][i] for i in idx])
    return tot


def volume(o):
    """exact volume (Fraction) of a K descriptor"""
    pts = o[1]
    c = pts[0]
    v = F(0)
    for _n, _b, idx in o[2]:
        p0 = pts[idx[0]]
        for i in range(1, len(idx) - 1):
            v += abs(F(det3(sub(p0, c), sub(pts[idx[i]], c), sub(pts[idx[i + 1]], c))))
    return v / 6


def centroid(pts):
    m = len(pts)
    return tuple(sum(F(p[k]) for p in pts) / m for k in range(3))


# ---------------------------------------------------------------- distance / angle
def dist2(a, b):
    """exact squared distance for the pairs of C10 (P,L,PL)"""
    ka, kb = a[0], b[0]
    rank = {"P": 0, "L": 1, "PL": 2}
    if rank[ka] > rank[kb]:
        a, b = b, a
        ka, kb = kb, ka
    if ka == "P" and kb == "P":
        d = sub(a[1], b[1])
        return F(dot(d, d))
    if ka == "P" and kb == "L":
        w = sub(a[1], b[1])
        c = cross(w, b[2])
        return F(dot(c, c)) / F(dot(b[2], b[2]))
    if ka == "P" and kb == "PL":
        v = dot(b[2], sub(a[1], b[1]))
        return F(v * v) / F(dot(b[2], b[2]))
    if ka == "L" and kb == "L":
        n = cross(a[2], b[2])
        if is_zero(n):
            return dist2(("P", b[1]), a)
        v = dot(sub(b[1], a[1]), n)
        return F(v * v) / F(dot(n, n))
    if ka == "L" and kb == "PL":
        if dot(a[2], b[2]) != 0:
            return F(0)
        return dist2(("P", a[1]), b)
    raise ValueError((ka, kb))


def sin2(u, v):
    c = cross(u, v)
    return F(dot(c, c)) / (F(dot(u, u)) * F(dot(v, v)))


def cos2(u, v):
    d = dot(u, v)
    return F(d * d) / (F(dot(u, u)) * F(dot(v, v)))


def acute_angle(u, v):
    """reference acute angle between directions, well conditioned everywhere"""
    c = cross(u, v)
    return math.atan2(math.sqrt(float(dot(c, c))), abs(float(dot(u, v))))


# ---------------------------------------------------------------- linear algebra (C16)
def rref(m):
    m = [[F(x) for x in row] for row in m]
    rows = len(m)
    cols = len(m[0]) if m else 0
    r = 0
    piv = []
    for c in range(cols):
        p = next((i for i in range(r, rows) if m[i][c] != 0), None)
        if p is None:
            continue
        m[r], m[p] = m[p], m[r]
        pv = m[r][c]
        m[r] = [x / pv for x in m[r]]
        for i in range(rows):
            if i != r and m[i][c] != 0:
                f = m[i][c]
                m[i] = [x - f * y for x, y in zip(m[i], m[r])]
        piv.append(c)
        r += 1
        if r == rows:
            break
    return m, piv


def rank(m):
    if not m or not m[0]:
        return 0
    return len(rref(m)[1])


# ---------------------------------------------------------------- transforms
def map_desc(o, f, fv=None):
    """apply point map f (and vector map fv for directions/normals) to a descriptor"""
    if o is None:
        return None
    fv = fv or f
    k = o[0]
    if k == "P":
        return ("P", f(o[1]))
    if k in ("L", "H"):
        return (k, f(o[1]), fv(o[2]))
    if k == "S":
        return ("S", f(o[1]), f(o[2]))
    if k == "PL":
        return ("PL", f(o[1]), fv(o[2]))
    if k == "G":
        return ("G", [f(p) for p in o[1]])
    if k == "K":
        return make_K([f(p) for p in o[1]])
    raise ValueError(k)


def translate(o, t):
    if o is None:
        return None
    k = o[0]
    f = lambda p: add(p, t)
    ident = lambda v: v
    if k == "K":
        pts = [f(p) for p in o[1]]
        faces = [(n, int_row(n, dot(n, pts[idx[0]]))[1], idx) for n, b, idx in o[2]]
        # n is primitive integer already; offset must be re-derived with the same scaling
        faces2 = []
        for n, b, idx in o[2]:
            nb = dot(n, pts[idx[0]])
            ni, bi = int_row(n, nb)
            faces2.append((ni, bi, idx))
        return ("K", pts, faces2)
    return map_desc(o, f, ident)
