"""Coverage-guided supplement (thorough tier): libFuzzer (atheris) drives the SAME Hypothesis strategies and the
SAME oracle as the property's normal strata, through test.hypothesis.fuzz_one_input, with coverage
instrumentation of the Geometry3D package only.  One process per shard:

    python -m g3dverif.fuzz <ID> --runs N --seed S --out <json> [--max-seconds T]

The oracle lives inside the target (prop.check through engine.run_case, including triage).  On a violation the
replay file is written from the case object itself and the process exits 3; statistics are flushed to --out
periodically because libFuzzer ends the process itself.
"""
import os
import sys
import json
import time
import argparse
import tempfile
import shutil


def main(argv=None):
    ap = argparse.ArgumentParser()
    ap.add_argument("id")
    ap.add_argument("--runs", type=int, default=2000)
    ap.add_argument("--seed", type=int, default=1)
    ap.add_argument("--shard", type=int, default=0)
    ap.add_argument("--out", required=True)
    ap.add_argument("--max-seconds", type=int, default=0)
    ap.add_argument("--corpus")
    args = ap.parse_args(argv)

    here = os.path.dirname(os.path.dirname(os.path.abspath(__file__)))
    deps = os.path.join(here, ".deps")
    if os.path.isdir(deps) and deps not in sys.path:
        sys.path.append(deps)
    out = {"status": "unavailable", "evaluations": 0}
    try:
        import atheris
    except Exception as e:  # noqa
        out["error"] = "atheris not importable: %r" % (e,)
        with open(args.out, "w") as f:
            json.dump(out, f)
        return 0

    from . import engine
    from .run import load_prop
    from .common import lib, reset_config

    with atheris.instrument_imports(include=["Geometry3D"]):
        lib()
    from hypothesis import given, settings, HealthCheck

    prop = load_prop(args.id.upper())
    strat = prop.fuzz_strategy()
    ctx = engine.Ctx(prop, "thorough", args.seed, args.shard, 1)
    ctx.stratum = "fuzz"
    reset_config()
    t0 = time.time()
    state = {"n": 0, "last": 0.0}

    def flush(status):
        d = ctx.dump()
        d["status"] = status
        d["wall_s"] = time.time() - t0
        d["fuzz_inputs"] = state["n"]
        with open(args.out + ".tmp", "w") as f:
            json.dump(d, f)
        os.replace(args.out + ".tmp", args.out)

    @settings(database=None, deadline=None, suppress_health_check=list(HealthCheck), print_blob=False)
    @given(strat)
    def target(case):
        try:
            engine.run_case(ctx, prop, case)
        except engine.Violation:
            case_, fail = ctx.last_fail
            path = engine.write_replay(prop, "fuzz", case_, fail, ctx, {"found_by": "atheris/libFuzzer"})
            ctx.violations.append({"stratum": "fuzz", "sig": fail.sig, "replay": path, "detail": engine.short(fail.detail, 600)})
            flush("ok")
            sys.stdout.flush()
            os._exit(3)

    def one_input(data):
        state["n"] += 1
        target.hypothesis.fuzz_one_input(data)
        now = time.time()
        if now - state["last"] > 5:
            state["last"] = now
            flush("ok")
        if args.max_seconds and now - t0 > args.max_seconds:
            flush("ok")
            os._exit(0)

    if args.corpus:
        corpus = args.corpus
        os.makedirs(corpus, exist_ok=True)
    else:
        corpus = tempfile.mkdtemp(prefix="g3dfuzz_", dir=os.path.join(here, ".work") if os.path.isdir(os.path.join(here, ".work")) else None)
    flush("ok")
    # seed corpus: pseudo-random byte strings long enough for the strategies to draw from (an empty corpus starts
    # with 1-byte inputs that Hypothesis rejects before any instrumented code runs, so libFuzzer never grows them)
    import hashlib

    for i in range(48):
        blob = b""
        j = 0
        while len(blob) < 1536:
            blob += hashlib.blake2b(("%d/%d/%d" % (args.seed, i, j)).encode(), digest_size=64).digest()
            j += 1
        with open(os.path.join(corpus, "seed%02d" % i), "wb") as f:
            f.write(blob)
    try:
        atheris.Setup(
            [sys.argv[0], "-runs=%d" % args.runs, "-seed=%d" % (args.seed + 1), "-max_len=4096", "-len_control=0",
             "-print_final_stats=0", "-verbosity=0", "-artifact_prefix=%s/" % corpus, corpus],
            one_input,
        )
        import atexit

        atexit.register(lambda: shutil.rmtree(corpus, ignore_errors=True))
        atheris.Fuzz()
    finally:
        flush("ok")
        shutil.rmtree(corpus, ignore_errors=True)
    return 0


if __name__ == "__main__":
    sys.exit(main())
