"""Run-time tolerance witness (triage step 3).

Re-runs a failing case with two observers installed in the library's module namespaces:
  * get_eps() returns a float subclass whose comparison methods log how far the compared quantity
    was from the tolerance threshold;
  * a module-global round() logs how far every hashed float was from a rounding boundary.
The observers change no result.  A failing case is dismissed only if some comparison operand sat
strictly inside the band (0.3*eps, 1000*eps) around its threshold centre - i.e. the case is not
in the property's domain ("nothing sits inside the library's tolerance band") at a decision the
library actually took - or a hashed float sat within 1% of a rounding step of a boundary *and* that boundary
separated it from another hashed float less than 2% of a step away (boundary_split).
"""
import sys
import math
import builtins

from .common import lib

LOW = 0.3
HIGH = 1000.0

_log = None


class EpsFloat(float):
    """a float carrying the centre and scale of the tolerance threshold it stands for:
    value = centre +/- scale*eps"""

    def __new__(cls, value, centre=0.0, scale=1.0, eps=None):
        o = float.__new__(cls, value)
        o.centre = centre
        o.scale = scale
        o.eps = eps if eps is not None else abs(value)
        return o

    def _mk(self, value, centre, scale):
        return EpsFloat(value, centre, scale, self.eps)

    def __neg__(self):
        return self._mk(-float(self), -self.centre, self.scale)

    def __pos__(self):
        return self

    def __add__(self, other):
        if isinstance(other, EpsFloat):
            return float(self) + float(other)
        try:
            return self._mk(float(self) + other, self.centre + other, self.scale)
        except TypeError:
            return NotImplemented

    __radd__ = __add__

    def __sub__(self, other):
        if isinstance(other, EpsFloat):
            return float(self) - float(other)
        try:
            return self._mk(float(self) - other, self.centre - other, self.scale)
        except TypeError:
            return NotImplemented

    def __rsub__(self, other):
        try:
            return self._mk(other - float(self), other - self.centre, self.scale)
        except TypeError:
            return NotImplemented

    def __mul__(self, other):
        if isinstance(other, EpsFloat):
            return float(self) * float(other)
        try:
            return self._mk(float(self) * other, self.centre * other, self.scale * abs(other))
        except TypeError:
            return NotImplemented

    __rmul__ = __mul__

    def __truediv__(self, other):
        if isinstance(other, EpsFloat):
            return float(self) / float(other)
        try:
            return self._mk(float(self) / other, self.centre / other, self.scale / abs(other))
        except (TypeError, ZeroDivisionError):
            return NotImplemented

    def _see(self, other):
        if _log is None:
            return
        try:
            x = float(other)
        except (TypeError, ValueError):
            return
        w = self.scale * self.eps
        if w <= 0 or not math.isfinite(x):
            return
        gap = abs(x - self.centre) / w
        _log["cmp"] += 1
        if LOW < gap < HIGH:
            _log["fragile"].append((x, self.centre, w))
        if _log["min_gap"] is None or (gap > LOW and gap < _log["min_gap"]):
            _log["min_gap"] = gap

    def __lt__(self, other):
        self._see(other)
        return float.__lt__(self, other)

    def __le__(self, other):
        self._see(other)
        return float.__le__(self, other)

    def __gt__(self, other):
        self._see(other)
        return float.__gt__(self, other)

    def __ge__(self, other):
        self._see(other)
        return float.__ge__(self, other)

    def __eq__(self, other):
        return float.__eq__(self, other)

    def __ne__(self, other):
        return float.__ne__(self, other)

    __hash__ = float.__hash__


def _round(x, nd=None):
    if _log is not None and isinstance(x, float) and nd is not None and math.isfinite(x):
        y = abs(x) * (10.0 ** nd)
        if y < 1e15:
            frac = y - math.floor(y)
            _log["round"] += 1
            if abs(frac - 0.5) < 0.01:
                _log["boundary"].append((x, nd))
            _log["rounded"].setdefault(nd, set()).add(x)
    if nd is None:
        return builtins.round(x)
    return builtins.round(x, nd)


class Monitors(object):
    def __enter__(self):
        global _log
        lib()
        self.saved = []
        self.injected = []
        for name, mod in list(sys.modules.items()):
            if not name.startswith("Geometry3D") or mod is None:
                continue
            d = mod.__dict__
            if name.endswith("utils.constant"):
                continue
            ge = d.get("get_eps")
            if ge is not None and not getattr(ge, "_g3d_witness", False):
                def wrapper(_orig=ge):
                    v = _orig()
                    return EpsFloat(v, 0.0, 1.0, abs(float(v)))

                wrapper._g3d_witness = True
                self.saved.append((d, "get_eps", ge))
                d["get_eps"] = wrapper
            if "round" not in d and (".geometry." in name or name.endswith("utils.vector")):
                d["round"] = _round
                self.injected.append(d)
        _log = {"cmp": 0, "fragile": [], "min_gap": None, "round": 0, "boundary": [], "rounded": {}}
        self.log = _log
        return self

    def __exit__(self, *exc):
        global _log
        _log = None
        for d, k, v in self.saved:
            d[k] = v
        for d in self.injected:
            d.pop("round", None)
        return False


def examine(prop, case, ctx, fail, modes=("eps", "round")):
    """returns a dismissal reason or None"""
    from .engine import Fail

    with Monitors() as mon:
        try:
            from .engine import _Watchdog

            with _Watchdog("witness re-run"):
                prop.check(case, ctx)
            again = None
        except Fail as f:
            again = f
        except Exception:
            # the observers perturbed the run: ignore them
            return None
    if again is None or again.sig != fail.sig:
        return None  # observers perturbed the outcome: ignore them, admission still stands
    if "eps" in modes and mon.log["fragile"]:
        return "tolerance_band"
    if "round" in modes and mon.log["boundary"] and boundary_split(mon.log):
        return "rounding_boundary"
    return None


def boundary_split(log):
    """A hashed float near a rounding boundary can only have influenced the run if the boundary actually separated
    it from another hashed float that is the same quantity up to float noise (two evaluations of one coordinate,
    offset or direction component rounding apart - that is how a rounding boundary makes equal things hash
    differently).  True iff such a pair exists: two floats rounded at the same number of digits, less than 2% of a
    rounding step apart, whose roundings differ."""
    near = {}
    for x, nd in log["boundary"]:
        near.setdefault(nd, set()).add(x)
    for nd, xs in near.items():
        vals = sorted(log["rounded"].get(nd, ()))
        if len(vals) < 2:
            continue
        import bisect

        step = 10.0 ** (-nd)
        for x in xs:
            i = bisect.bisect_left(vals, x - 0.02 * step)
            while i < len(vals) and vals[i] <= x + 0.02 * step:
                y = vals[i]
                if y != x and builtins.round(y, nd) != builtins.round(x, nd):
                    return True
                i += 1
    return False
