"""Case execution, statistics, triage and Hypothesis driving (runs inside a shard worker)."""
import os
import json
import time
import traceback
import collections
import hashlib

from .common import HarnessError, enc, dec, key_of, short, lib, reset_config, VERIF_DIR


class Fail(Exception):
    """the property's oracle disagrees with the library on this case"""

    def __init__(self, sig, detail=None, facts=None):
        Exception.__init__(self, sig)
        self.sig = sig
        self.detail = detail or {}
        self.facts = facts or {}


class Violation(Exception):
    """a Fail that survived triage (raised into Hypothesis so that it shrinks)"""


class Stratum(object):
    def __init__(self, name, kind, payload, n=0, weight=1.0):
        self.name = name
        self.kind = kind  # 'hyp' | 'enum' | 'machine' | 'once'
        self.payload = payload
        self.n = n
        self.weight = weight


class Ctx(object):
    """per-shard statistics and the hooks a property's check() uses"""

    MAX_SAMPLES = 6

    def __init__(self, prop, tier, seed, shard, nshards):
        self.prop = prop
        self.tier = tier
        self.seed = seed
        self.shard = shard
        self.nshards = nshards
        self.counting = True
        self.evaluations = 0
        self.classes = collections.Counter()
        self.nontrivial_keys = set()
        self.nontrivial_unkeyed = 0
        self.nontrivial_total = 0
        self.discarded = collections.Counter()
        self.not_admitted = collections.Counter()
        self.dismissed = collections.Counter()
        self.dismissed_samples = []
        self.known = collections.Counter()
        self.known_samples = {}
        self.samples = []
        self.sample_classes = set()
        self.violations = []
        self.exhaustive = []
        self.stratum = None
        self.per_stratum = collections.Counter()
        self.last_fail = None
        self.notes = collections.Counter()

    # ---- hooks for checks
    def cls(self, *names):
        if self.counting:
            for n in names:
                self.classes[n] += 1

    def note(self, name, k=1):
        if self.counting:
            self.notes[name] += k

    def nontrivial(self, key_obj):
        self.cur_nt = True
        if self.counting and self.stratum != "regress":
            self.nontrivial_total += 1
            self.nontrivial_keys.add(key_obj if isinstance(key_obj, int) else key_of(key_obj))

    def nontrivial_distinct_by_construction(self, k=1):
        self.cur_nt = True
        if self.counting and self.stratum != "regress":
            self.nontrivial_total += k
            self.nontrivial_unkeyed += k

    def discard(self, reason):
        if self.counting:
            self.discarded[reason] += 1

    def out_of_domain(self, reason):
        if self.counting:
            self.not_admitted[reason] += 1

    def sample(self, cls, case, outcome=None):
        if not self.counting:
            return
        if cls in self.sample_classes and len(self.samples) >= self.MAX_SAMPLES:
            return
        if len(self.samples) >= 4 * self.MAX_SAMPLES:
            return
        if cls in self.sample_classes:
            return
        self.sample_classes.add(cls)
        self.samples.append(
            {"stratum": self.stratum, "class": cls, "case": short(case, 700), "outcome": outcome, "nontrivial": bool(getattr(self, "cur_nt", False))}
        )

    # ---- results
    def dump(self):
        return {
            "shard": self.shard,
            "evaluations": self.evaluations,
            "classes": dict(self.classes),
            "notes": dict(self.notes),
            "nontrivial_keys": sorted(self.nontrivial_keys),
            "nontrivial_unkeyed": self.nontrivial_unkeyed,
            "nontrivial_total": self.nontrivial_total,
            "discarded": dict(self.discarded),
            "not_admitted": dict(self.not_admitted),
            "dismissed": dict(self.dismissed),
            "dismissed_samples": self.dismissed_samples[:5],
            "known": dict(self.known),
            "known_samples": self.known_samples,
            "samples": self.samples,
            "violations": self.violations,
            "exhaustive": self.exhaustive,
            "per_stratum": dict(self.per_stratum),
        }


# ---------------------------------------------------------------- known findings
_KF = None


def known_findings():
    global _KF
    if _KF is None:
        p = os.path.join(VERIF_DIR, "known_findings.json")
        with open(p) as f:
            _KF = json.load(f)["findings"]
    return _KF


def match_known(prop_id, fail):
    import re

    for i, e in enumerate(known_findings()):
        if e.get("status") != "open" or e.get("property") != prop_id:
            continue
        m = e.get("match", {})
        if "sig_regex" in m and not re.search(m["sig_regex"], fail.sig):
            continue
        facts_ok = all(fail.facts.get(k) == v for k, v in m.get("facts", {}).items())
        if not facts_ok:
            continue
        return e
    return None


def _library_exception(e):
    """an exception that escaped from library code (innermost frame inside the tree under test) through a call the
    check did not guard: the library raised on a valid case, which is a failure of the case, not of the harness.
    Exceptions raised by harness code itself stay harness errors (None)."""
    import traceback
    from .common import REPO

    tb = traceback.extract_tb(e.__traceback__)
    if not tb:
        return None
    root = os.path.join(os.path.abspath(REPO), "Geometry3D") + os.sep
    if not os.path.abspath(tb[-1].filename).startswith(root):
        return None
    return Fail("a library call raises %s" % type(e).__name__, {"error": repr(e)[:300], "where": "%s:%d" % (os.path.basename(tb[-1].filename), tb[-1].lineno)}, {"unguarded": True})


# ---------------------------------------------------------------- watchdog
CASE_LIMIT_S = int(os.environ.get("G3DVERIF_CASE_LIMIT", "300"))


class _Watchdog(object):
    """A single case (one library call sequence on a handful of small objects) is evaluated in milliseconds to a
    few seconds. If it has not returned after CASE_LIMIT_S seconds the library is looping: that is reported as a
    failure of the case (and, like every failure, only becomes a violation if it reproduces on re-evaluation,
    i.e. after a second limit has run out) instead of hanging the check. This is not a search budget: nothing is
    concluded from slowness, only from a call that does not come back at all."""

    def __init__(self, what):
        self.what = what
        self.old = None

    def _fire(self, signum, frame):
        raise Fail("a library call does not return (no result after %d s; such a case otherwise takes well under a second)" % CASE_LIMIT_S, {"during": self.what}, {"hang": True})

    def __enter__(self):
        import signal

        try:
            self.old = signal.signal(signal.SIGALRM, self._fire)
            signal.setitimer(signal.ITIMER_REAL, CASE_LIMIT_S)
        except (ValueError, AttributeError):
            self.old = None
        return self

    def __exit__(self, *exc):
        import signal

        try:
            signal.setitimer(signal.ITIMER_REAL, 0)
            if self.old is not None:
                signal.signal(signal.SIGALRM, self.old)
        except (ValueError, AttributeError):
            pass
        return False


# ---------------------------------------------------------------- case execution with triage
def run_case(ctx, prop, case):
    """execute one case; returns normally when the property held (or the failure was a known
    finding / dismissed), raises Violation otherwise"""
    if ctx.counting:
        ctx.evaluations += 1
        ctx.per_stratum[ctx.stratum] += 1
    ctx.cur_nt = False
    try:
        with _Watchdog("case evaluation"):
            prop.check(case, ctx)
        return
    except Fail as f:
        fail = f
    except (HarnessError, Violation):
        raise
    except Exception as e:
        fail = _library_exception(e)
        if fail is None:
            raise
    handle_fail(ctx, prop, case, fail)


def handle_fail(ctx, prop, case, fail):
    """triage a failure: returns normally for known findings / dismissed cases, raises Violation otherwise"""
    verdict, info = triage(ctx, prop, case, fail)
    if verdict == "known":
        if ctx.counting:
            ctx.known[info["id"]] += 1
            ctx.known_samples.setdefault(info["id"], short(case, 500))
        return
    if verdict == "dismissed":
        if ctx.counting:
            ctx.dismissed[info] += 1
            if len(ctx.dismissed_samples) < 5:
                ctx.dismissed_samples.append(
                    {"reason": info, "sig": fail.sig, "case": short(case, 500)}
                )
        return
    ctx.last_fail = (case, fail)
    raise Violation(fail.sig)


def triage(ctx, prop, case, fail):
    # 1. the failure must reproduce on a fresh evaluation
    was = ctx.counting
    ctx.counting = False
    try:
        try:
            with _Watchdog("re-evaluation"):
                prop.check(case, ctx)
            again = None
        except Fail as f2:
            again = f2
        except (HarnessError, Violation):
            raise
        except Exception as e2:
            again = _library_exception(e2)
            if again is None:
                raise
        if again is None or again.sig != fail.sig:
            raise HarnessError(
                "failure does not reproduce: first %r then %r on %s"
                % (fail.sig, again.sig if again else None, short(case, 600))
            )
        # 2. admission (the property's domain restriction), if the property defines one
        adm = getattr(prop, "admit", None)
        if adm is not None:
            reason = adm(case, fail)
            if reason:
                return "dismissed", "out_of_domain:" + reason
        # 3. run-time tolerance witness
        wit = getattr(prop, "WITNESS", ())
        if wit:
            from . import witness

            reason = witness.examine(prop, case, ctx, fail, wit)
            if reason:
                return "dismissed", reason
        # 4. known findings
        e = match_known(prop.ID, fail)
        if e is not None:
            return "known", e
        return "violation", None
    finally:
        ctx.counting = was


# ---------------------------------------------------------------- replay files
def write_replay(prop, stratum, case, fail, ctx, extra=None):
    d = os.path.join(VERIF_DIR, "replays", prop.ID)
    os.makedirs(d, exist_ok=True)
    body = {
        "property": prop.ID,
        "stratum": stratum,
        "case": enc(case),
        "sig": fail.sig,
        "detail": enc(fail.detail),
        "facts": enc(fail.facts),
        "seed": ctx.seed,
        "tier": ctx.tier,
        "shard": ctx.shard,
        "pythonhashseed": os.environ.get("PYTHONHASHSEED"),
    }
    if extra:
        body.update(extra)
    s = json.dumps(body, indent=1, sort_keys=True)
    h = hashlib.sha1(json.dumps([body["case"], body["sig"]], sort_keys=True).encode()).hexdigest()[:12]
    path = os.path.join(d, h + ".json")
    with open(path, "w") as f:
        f.write(s)
    return os.path.relpath(path, VERIF_DIR)


def replay(prop, path):
    """re-execute a replay file without Hypothesis. returns (violated, message)"""
    with open(path) as f:
        body = json.load(f)
    case = dec(body["case"])
    ctx = Ctx(prop, "quick", 0, 0, 1)
    ctx.stratum = body.get("stratum")
    reset_config()
    if hasattr(prop, "replay_case"):
        case = prop.replay_case(case)
    try:
        run_case(ctx, prop, case)
    except Violation as v:
        return True, str(v)
    finally:
        reset_config()
    return False, "known=%s dismissed=%s" % (dict(ctx.known), dict(ctx.dismissed))


# ---------------------------------------------------------------- drivers
def _seed_for(ctx, name):
    s = "%d/%d/%s/%s" % (ctx.seed, ctx.shard, ctx.prop.ID, name)
    return int.from_bytes(hashlib.blake2b(s.encode(), digest_size=6).digest(), "big")


def _settings(n, phases):
    from hypothesis import settings, HealthCheck

    return settings(
        max_examples=max(1, n),
        database=None,
        deadline=None,
        derandomize=False,
        report_multiple_bugs=False,
        phases=phases,
        print_blob=False,
        suppress_health_check=[
            HealthCheck.too_slow,
            HealthCheck.data_too_large,
            HealthCheck.filter_too_much,
            HealthCheck.large_base_example,
        ],
    )


SHRINK_BUDGET = {"quick": 300, "thorough": 1500}
if os.environ.get("G3DVERIF_SHRINK_BUDGET"):
    # development aid (seed-stability sweeps only need the exit code): a smaller shrinking budget
    SHRINK_BUDGET = {"quick": int(os.environ["G3DVERIF_SHRINK_BUDGET"]), "thorough": int(os.environ["G3DVERIF_SHRINK_BUDGET"])}


def drive_hyp(ctx, prop, stratum, n):
    """one Hypothesis run over a stratum's strategy. Returns the (case, fail) of a violation or None"""
    from hypothesis import given, seed, Phase
    from hypothesis.errors import Unsatisfiable

    sd = _seed_for(ctx, stratum.name)
    strat = stratum.payload

    @seed(sd)
    @_settings(n, (Phase.generate,))
    @given(strat)
    def t(case):
        run_case(ctx, prop, case)

    ctx.last_fail = None
    try:
        t()
        return None
    except Violation:
        pass
    except Unsatisfiable:
        raise HarnessError("stratum %s/%s is unsatisfiable (generator bug)" % (prop.ID, stratum.name))
    first = ctx.last_fail
    if first is not None and first[1].facts and first[1].facts.get("hang"):
        return first  # a case on which the library does not return is not shrunk (every attempt would wait again)
    # second run: same seed, with shrinking, statistics frozen, bounded by an evaluation budget
    budget = [SHRINK_BUDGET.get(ctx.tier, 300)]
    best = [first]
    was = ctx.counting
    ctx.counting = False

    @seed(sd)
    @_settings(n, (Phase.generate, Phase.shrink))
    @given(strat)
    def t2(case):
        if budget[0] <= 0:
            return
        budget[0] -= 1
        try:
            run_case(ctx, prop, case)
        except Violation:
            best[0] = ctx.last_fail
            raise

    try:
        t2()
    except HarnessError:
        raise
    except BaseException:
        pass
    finally:
        ctx.counting = was
    case, fail = best[0]
    # the minimal case must fail when executed plainly
    ctx.counting = False
    try:
        try:
            run_case(ctx, prop, case)
            case, fail = first
        except Violation:
            case, fail = ctx.last_fail
    finally:
        ctx.counting = was
    return case, fail


def drive_enum(ctx, prop, stratum):
    """exhaustive enumeration, sliced over shards; payload(shard, nshards) yields cases"""
    found = None
    for case in stratum.payload(ctx.shard, ctx.nshards):
        try:
            run_case(ctx, prop, case)
        except Violation:
            if found is None:
                found = ctx.last_fail
                # keep enumerating only a little: one violation is enough to report
                break
    return found


def drive_machine(ctx, prop, stratum, n):
    """stateful: payload is a function ctx -> RuleBasedStateMachine subclass"""
    from hypothesis import seed, Phase
    from hypothesis.stateful import run_state_machine_as_test

    sd = _seed_for(ctx, stratum.name)
    Machine = stratum.payload(ctx)
    steps = getattr(Machine, "STEP_COUNT", 12)
    ctx.last_fail = None
    from hypothesis import settings, HealthCheck

    def mk(phases, n):
        return settings(
            max_examples=max(1, n),
            stateful_step_count=steps,
            database=None,
            deadline=None,
            report_multiple_bugs=False,
            phases=phases,
            print_blob=False,
            suppress_health_check=list(HealthCheck),
        )

    import hypothesis.errors as _he

    flaky = False
    try:
        run_state_machine_as_test(seed(sd)(Machine), settings=mk((Phase.generate,), n))
        return None
    except Violation:
        pass
    except getattr(_he, "Flaky", ()) as e:
        # Hypothesis re-executes a failing history and found it behaving differently the second time.  The
        # machine draws nothing from outside Hypothesis, so when a triaged failure of the library is on record the
        # difference comes from state the library kept between the two executions; that failure is reported as
        # it stands (no shrinking: the shrinker needs repeatable executions).  Without a recorded failure the
        # inconsistency is the harness's own and stays a harness error.
        if ctx.last_fail is None:
            raise
        flaky = True
    first = ctx.last_fail
    if flaky:
        return first
    if first is not None and first[1].facts and first[1].facts.get("hang"):
        return first
    was = ctx.counting
    ctx.counting = False
    budget = [SHRINK_BUDGET.get(ctx.tier, 300)]
    Machine2 = stratum.payload(ctx)
    Machine2.SHRINK_BUDGET = budget
    best = [first]
    Machine2.BEST = best
    try:
        run_state_machine_as_test(
            seed(sd)(Machine2), settings=mk((Phase.generate, Phase.shrink), n)
        )
    except HarnessError:
        raise
    except BaseException:
        pass
    finally:
        ctx.counting = was
    case, fail = best[0]
    ctx.counting = False
    try:
        try:
            run_case(ctx, prop, case)
            case, fail = first
        except Violation:
            case, fail = ctx.last_fail
    finally:
        ctx.counting = was
    return case, fail


def run_shard(prop, tier, seed_value, shard, nshards, only=None):
    """run all strata of a property for one shard; returns the stats dict"""
    reset_config()
    ctx = Ctx(prop, tier, seed_value, shard, nshards)
    t0 = time.time()
    strata = list(prop.strata(tier))
    rp = os.path.join(VERIF_DIR, "regress", prop.ID + ".json")
    if os.path.exists(rp):
        with open(rp) as f:
            reg = [dec(e["case"]) for e in json.load(f)]
        conv = getattr(prop, "replay_case", lambda c: c)
        strata.insert(0, Stratum("regress", "once", lambda: [conv(c) for c in reg]))
    MIN_RUN = 12

    def share(n, si):
        """examples of stratum si that this shard runs.  A Hypothesis run always starts with the minimal
        example, so a stratum is never cut into runs shorter than MIN_RUN: small strata go to
        n // MIN_RUN (at least one) shards, rotating with the stratum index to balance load."""
        parts = max(1, min(nshards, n // MIN_RUN))
        pos = (shard - si) % nshards
        if pos >= parts:
            return 0
        return n // parts + (1 if pos < n % parts else 0)

    for si, s in enumerate(strata):
        if only and s.name not in only and not any(s.name.startswith(o) for o in only):
            continue
        ctx.stratum = s.name
        found = None
        try:
            if s.kind == "hyp":
                n = share(s.n, si)
                if n <= 0:
                    continue
                found = drive_hyp(ctx, prop, s, n)
            elif s.kind == "enum":
                found = drive_enum(ctx, prop, s)
                ctx.exhaustive.append(s.name)
            elif s.kind == "machine":
                n = share(s.n, si)
                if n <= 0:
                    continue
                found = drive_machine(ctx, prop, s, n)
            elif s.kind == "once":
                if shard == 0:
                    for case in s.payload():
                        try:
                            run_case(ctx, prop, case)
                        except Violation:
                            found = ctx.last_fail
                            break
            else:
                raise HarnessError("unknown stratum kind " + s.kind)
        finally:
            reset_config()
        if found is not None:
            case, fail = found
            path = write_replay(prop, s.name, case, fail, ctx)
            ctx.violations.append(
                {"stratum": s.name, "sig": fail.sig, "replay": path, "detail": short(fail.detail, 600)}
            )
            if len(ctx.violations) >= 3:
                break
    out = ctx.dump()
    out["wall_s"] = time.time() - t0
    return out


# ---------------------------------------------------------------- histories (stateful)
def make_history_machine(ctx, prop, rules_spec, init_strategy, step_count=12):
    """Build a RuleBasedStateMachine whose rules append steps to a history and execute them on an
    executor provided by the property:

      prop.Executor(init)         -> object with .apply(step) raising Fail, where step = (name, args...)
      prop.account(case, ctx)     -> record class / non-triviality / sample for a finished history
      rules_spec: {name: tuple of strategies for the step's arguments}

    The case handed to triage / replay is ("HIST", init, (step, ...)); prop.check re-executes it.
    """
    from hypothesis import strategies as st
    from hypothesis.stateful import RuleBasedStateMachine, rule, initialize, precondition

    class Machine(RuleBasedStateMachine):
        STEP_COUNT = step_count
        SHRINK_BUDGET = None
        BEST = None

        def __init__(self):
            RuleBasedStateMachine.__init__(self)
            self.ex = None
            self.init = None
            self.steps = []
            self.dead = False
            self.counted = False

        @initialize(init=init_strategy)
        def start(self, init):
            if self.SHRINK_BUDGET is not None:
                if self.SHRINK_BUDGET[0] <= 0:
                    self.dead = True
                    return
                self.SHRINK_BUDGET[0] -= 1
            self.init = init
            self._do(None)

        def _case(self):
            return ("HIST", self.init, tuple(self.steps))

        def _do(self, step):
            if self.dead:
                return
            if step is not None:
                self.steps.append(step)
            try:
                with _Watchdog("history step"):
                    if step is None:
                        self.ex = prop.Executor(self.init)
                        self.ex.start()
                    else:
                        self.ex.apply(step)
            except (Fail, Exception) as f:
                if not isinstance(f, Fail):
                    if isinstance(f, (HarnessError, Violation)):
                        raise
                    conv_ = _library_exception(f)
                    if conv_ is None:
                        raise
                    f = conv_
                self.dead = True
                case = self._case()
                try:
                    handle_fail(ctx, prop, case, f)
                except Violation:
                    if self.BEST is not None:
                        self.BEST[0] = ctx.last_fail
                    raise

        def teardown(self):
            if self.init is not None and not self.counted and ctx.counting:
                self.counted = True
                ctx.evaluations += 1
                ctx.per_stratum[ctx.stratum] += 1
                ctx.note("steps", len(self.steps))
                ctx.cur_nt = False
                prop.account(self._case(), ctx)

    for name, strategies in rules_spec.items():
        def mk(name, n):
            def fn(self, **kw):
                self._do((name,) + tuple(kw["a%d" % i] for i in range(n)))

            fn.__name__ = "rule_" + name
            return fn

        kwargs = {"a%d" % i: s for i, s in enumerate(strategies)}
        setattr(Machine, "rule_" + name, rule(**kwargs)(mk(name, len(strategies))))
    return Machine
